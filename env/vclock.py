"""env.vclock - virtual clock installed as the `time` global of the repository's modules.

`sleep(s)` adds s; every `monotonic_ns()` / `monotonic()` look advances the clock by
`tick` nanoseconds - a value that is constant within one run and may be symbolic (the MCU's
polling period).  The radio model adds transmission time through `advance()`.
"""
from fractions import Fraction

from vsym.core import SInt, SReal, NonTermination


def to_ns(x):
    if isinstance(x, SReal):
        return x.scaled_int(10 ** 9)
    if isinstance(x, SInt):
        return x * 10 ** 9
    if isinstance(x, VSec):
        return x.ns
    if isinstance(x, float):
        return int(round(x * 1e9))
    return int(x) * 10 ** 9


class VSec:
    """float seconds stand-in: exact nanoseconds underneath"""

    def __init__(self, ns):
        self.ns = ns

    def __add__(self, o):
        return VSec(self.ns + to_ns(o))

    __radd__ = __add__

    def __sub__(self, o):
        return VSec(self.ns - to_ns(o))

    def __lt__(self, o):
        return self.ns < to_ns(o)

    def __le__(self, o):
        return self.ns <= to_ns(o)

    def __gt__(self, o):
        return self.ns > to_ns(o)

    def __ge__(self, o):
        return self.ns >= to_ns(o)


class VClock:
    def __init__(self, tick_ns=1_000_000, max_looks=4000):
        self.now = 0
        self.tick = tick_ns
        self.looks = 0
        self.max_looks = max_looks
        self.slept = 0
        self.on_look = None

    def _look(self):
        self.looks += 1
        if self.looks > self.max_looks:
            raise NonTermination("more than %d clock looks on one path" % self.max_looks)
        v = self.now
        self.now = self.now + self.tick
        if self.on_look is not None:
            self.on_look()
        return v

    def monotonic_ns(self):
        return self._look()

    def monotonic(self):
        return VSec(self._look())

    def time(self):
        return VSec(self._look())

    def sleep(self, s):
        ns = to_ns(s)
        # negative sleeps raise ValueError in CPython; the repository never passes one on a
        # feasible path with this clock (deltas are compared before), so it is not modelled
        self.now = self.now + ns
        self.slept = self.slept + ns

    def advance(self, ns):
        self.now = self.now + ns
