"""env.simradio - SPI-level model of the nRF24L01(+), written from the product specification.

One CSN-framed transaction in, MISO bytes out.  The model is ordinary Python over
`int | SInt`, so it is executed symbolically together with the driver.  It records the full
transcript (command, data, CE level, virtual time): the observation point the properties name.

Contract points taken from the specification (nRF24L01+ PS v1.0):
 * STATUS is shifted out on MISO while the command byte is shifted in (before the command
   takes effect);
 * R_REGISTER / W_REGISTER with per-register writable bits, 5-byte address registers LSByte
   first with partial writes, pipes 2-5 share bytes 1..4 of pipe 1;
 * W_TX_PAYLOAD, W_TX_PAYLOAD_NOACK (honoured only with EN_DYN_ACK), W_ACK_PAYLOAD,
   R_RX_PAYLOAD, R_RX_PL_WID, FLUSH_TX, FLUSH_RX, REUSE_TX_PL, NOP, ACTIVATE;
 * three-level FIFOs, RX_P_NO, TX_FULL, FIFO_STATUS, OBSERVE_TX, write-1-to-clear IRQ flags,
   IRQ line = any unmasked flag, MAX_RT blocks the TX FIFO until cleared;
 * PTX: CE high with a payload pending performs the Enhanced-ShockBurst exchange: up to
   ARC+1 attempts, TX_DS on acknowledgement (or at once without auto-ack / with NO_ACK),
   MAX_RT otherwise; ACK payloads arrive in the PTX's RX FIFO (pipe 0) with RX_DR;
 * PRX: accepts a packet on an enabled pipe with matching address (first AW bytes), channel,
   air data rate and CRC scheme, static width == RX_PW_Px or dynamic length on both ends;
   a packet with the PID of the previous one is acknowledged again but not stored again;
   a full RX FIFO drops the packet without acknowledging.
Where the specification is silent the model records the event in `unspecified` and the
harness excludes the scenario or judges it on the driver's return value only.
"""
from vsym.core import SInt, SBool, NonTermination, s_ite

POR = {0x00: 0x08, 0x01: 0x3F, 0x02: 0x03, 0x03: 0x03, 0x04: 0x03, 0x05: 0x02, 0x06: 0x0F,
       0x08: 0, 0x09: 0, 0x0C: 0xC3, 0x0D: 0xC4, 0x0E: 0xC5, 0x0F: 0xC6,
       0x11: 0, 0x12: 0, 0x13: 0, 0x14: 0, 0x15: 0, 0x16: 0, 0x1C: 0, 0x1D: 0}
WMASK = {0x00: 0x7F, 0x01: 0x3F, 0x02: 0x3F, 0x03: 0x03, 0x04: 0xFF, 0x05: 0x7F, 0x06: 0xBF,
         0x0C: 0xFF, 0x0D: 0xFF, 0x0E: 0xFF, 0x0F: 0xFF,
         0x11: 0x3F, 0x12: 0x3F, 0x13: 0x3F, 0x14: 0x3F, 0x15: 0x3F, 0x16: 0x3F,
         0x1C: 0x3F, 0x1D: 0x07}
CONFIG_REGS = [0, 1, 2, 3, 4, 5, 6, 0x0C, 0x0D, 0x0E, 0x0F, 0x11, 0x12, 0x13, 0x14, 0x15, 0x16,
               0x1C, 0x1D]
ADDR_REGS = [0x0A, 0x0B, 0x10]


class Packet:
    __slots__ = ("src", "addr", "data", "no_ack", "uid", "dyn")

    def __init__(self, src, addr, data, no_ack, uid, dyn):
        self.src, self.addr, self.data, self.no_ack, self.uid, self.dyn = (
            src, addr, data, no_ack, uid, dyn)


class SimRadio:
    MAX_XFERS = 60000

    def __init__(self, clock=None, name="radio", plus=True):
        self.name = name
        self.clock = clock
        self.plus = plus
        self.reg = dict(POR)
        self.addr = {0x0A: [0xE7] * 5, 0x0B: [0xC2] * 5, 0x10: [0xE7] * 5}
        self.irq = 0  # bits 6..4 of STATUS
        self.rx_fifo = []  # list of (pipe, [bytes])
        self.tx_fifo = []  # list of [kind, pipe, [bytes], uid]; kind in tx / noack / ack
        self.arc_cnt = 0
        self.plos_cnt = 0
        self.reuse = False
        self.features_locked = not plus
        self._ce = False
        self.log = []  # (cmd, data, ce, time) of every transaction
        self.ce_log = []  # (level, index of the next transaction, time)
        self.unspecified = []
        self.link = None  # object with .transmit(radio, packet, attempt) -> None | (True, ackpl)
        self.medium = None
        self.last_uid = {}
        self.uid_seq = 0
        self.sent = []  # ground truth: dict per exchange
        self.received = []  # ground truth: (pipe, data, uid)
        self.n_xfer = 0
        self.latency = 0  # the outcome becomes visible after this many further transactions
        self._pending = []  # (countdown, fn)
        self.irq_log = []

    # ------------------------------------------------------------------ pins
    @property
    def ce(self):
        return self._ce

    @ce.setter
    def ce(self, v):
        v = bool(v)
        self.ce_log.append((v, len(self.log), self.clock.now if self.clock else 0))
        self._ce = v
        if v:
            self.kick()

    def irq_line_active(self):
        """IRQ pin is active low when any unmasked flag is set -> returns 'asserted'"""
        return ((self.irq & ~self.reg[0]) & 0x70) != 0

    # ------------------------------------------------------------------ status
    def rx_p_no(self):
        return self.rx_fifo[0][0] if self.rx_fifo else 7

    def status(self):
        return self.irq | (self.rx_p_no() << 1) | (1 if len(self.tx_fifo) >= 3 else 0)

    def fifo_status(self):
        r = 0
        if not self.rx_fifo:
            r |= 1
        if len(self.rx_fifo) >= 3:
            r |= 2
        if not self.tx_fifo:
            r |= 0x10
        if len(self.tx_fifo) >= 3:
            r |= 0x20
        if self.reuse:
            r |= 0x40
        return r

    def read_reg(self, r):
        if r == 7:
            return self.status()
        if r == 0x17:
            return self.fifo_status()
        if r == 8:
            return (self.plos_cnt << 4) | self.arc_cnt
        if r in (0x1C, 0x1D) and self.features_locked:
            return 0
        return self.reg.get(r, 0)

    def pwr_up(self):
        return (self.reg[0] & 2) != 0

    def prim_rx(self):
        return (self.reg[0] & 1) != 0

    def listening(self):
        return bool(self._ce) and bool(self.pwr_up()) and bool(self.prim_rx())

    def aw(self):
        return self.reg[3] + 2

    def rx_addr(self, p):
        aw = int(self.aw())
        if aw < 3:
            self.unspecified.append("SETUP_AW=0")
        if p == 0:
            return self.addr[0x0A][:aw]
        if p == 1:
            return self.addr[0x0B][:aw]
        return ([self.reg[0x0A + p]] + self.addr[0x0B][1:])[:aw]

    def crc_len(self):
        """effective CRC length: EN_CRC is forced high if any EN_AA bit is set"""
        cfg, aa = self.reg[0], self.reg[1]
        if bool((cfg & 8) == 0) and bool(aa == 0):
            return 0
        return 2 if bool(cfg & 4) else 1

    def config_snapshot(self):
        """all configuration registers (for `with` / cache comparisons)"""
        snap = {r: self.reg[r] for r in CONFIG_REGS}
        for r in ADDR_REGS:
            for i, b in enumerate(self.addr[r]):
                snap[(r, i)] = b
        return snap

    # ------------------------------------------------------------------ SPI
    def xfer(self, out):
        """one CSN-framed transaction; returns the MISO bytes (same length)"""
        self.n_xfer += 1
        if self.n_xfer > self.MAX_XFERS:
            raise NonTermination("more than %d SPI transactions on one path" % self.MAX_XFERS)
        if self.medium is not None:
            self.medium.poll_point(self)
        self._run_pending()
        st = self.status()
        cmd = out[0]
        data = list(out[1:])
        n = len(data)
        cmd = cmd.__index__()  # command byte: enumerated if symbolic
        self.log.append((cmd, data, self._ce, self.clock.now if self.clock else 0))
        if cmd < 0x20:  # R_REGISTER
            if cmd in self.addr:
                return [st] + (list(self.addr[cmd]) + [0] * n)[:n]
            return [st] + [self.read_reg(cmd)] * n
        if cmd < 0x40:  # W_REGISTER
            r = cmd & 0x1F
            if not n:
                return [st]
            if r in self.addr:
                a = self.addr[r]
                k = min(n, 5)
                a[:k] = data[:k]
                if n > 5:
                    self.unspecified.append("address write > 5 bytes")
            elif r == 7:
                self.irq = self.irq & ~(data[0] & 0x70)
                self.kick()  # clearing MAX_RT with CE high restarts the transmission
            elif r in (0x1C, 0x1D) and self.features_locked:
                pass
            elif r in WMASK:
                self.reg[r] = data[0] & WMASK[r]
                if r == 5:
                    self.plos_cnt = 0
                if r == 0:
                    self.kick()
            # read-only registers (OBSERVE_TX, RPD, FIFO_STATUS) and unused offsets: ignored
            return [st] + [0] * n
        if cmd == 0x50:  # ACTIVATE (only meaningful on the non-plus variant)
            if not self.plus and n and bool(data[0] == 0x73):
                self.features_locked = not self.features_locked
            return [st] + [0] * n
        if cmd == 0x61:  # R_RX_PAYLOAD
            if self.rx_fifo:
                pl = self.rx_fifo[0][1]
                if n < len(pl):
                    self.unspecified.append("partial R_RX_PAYLOAD")
                if n:
                    self.rx_fifo.pop(0)
                return [st] + (pl + [pl[-1] if pl else 0] * n)[:n]
            if n:
                self.unspecified.append("R_RX_PAYLOAD on an empty FIFO")
            return [st] + [0] * n
        if cmd == 0x60:  # R_RX_PL_WID
            w = len(self.rx_fifo[0][1]) if self.rx_fifo else 0
            return [st] + [w] * n
        if cmd in (0xA0, 0xB0) or 0xA8 <= cmd <= 0xAD:
            if n == 0 or n > 32:
                self.unspecified.append("payload command with %d bytes" % n)
            if len(self.tx_fifo) < 3:
                kind = "tx" if cmd == 0xA0 else ("noack" if cmd == 0xB0 else "ack")
                self.uid_seq += 1
                self.tx_fifo.append([kind, cmd & 7, data, "%s#%d" % (self.name, self.uid_seq)])
                self.reuse = False
            else:
                self.unspecified.append("payload written to a full TX FIFO")
            self.kick()
            return [st] + [0] * n
        if cmd == 0xE1:
            self.tx_fifo.clear()
            self.reuse = False
        elif cmd == 0xE2:
            self.rx_fifo.clear()
        elif cmd == 0xE3:
            self.reuse = True
        elif cmd != 0xFF:
            self.unspecified.append("unknown command 0x%02X" % cmd)
        return [st] + [0] * n

    # ------------------------------------------------------------------ PTX
    def _run_pending(self):
        if not self._pending:
            return
        keep = []
        for cnt, fn in self._pending:
            if cnt <= 0:
                fn()
            else:
                keep.append((cnt - 1, fn))
        self._pending = keep

    def _later(self, fn):
        if self.latency:
            self._pending.append((self.latency - 1, fn))
        else:
            fn()

    def _set_irq(self, bits):
        self.irq = self.irq | bits
        self.irq_log.append((bits, len(self.log)))

    def can_tx(self):
        if not self._ce or not self.tx_fifo or self._pending:
            return False
        cfg = self.reg[0]
        if bool((cfg & 3) != 2):  # needs PWR_UP = 1, PRIM_RX = 0 (forks if symbolic)
            return False
        if bool(self.irq & 0x10):
            return False  # MAX_RT blocks further transmissions until cleared
        return True

    def kick(self):
        guard = 0
        while self.can_tx():
            guard += 1
            if guard > 4:
                raise NonTermination("TX engine loop")
            kind, _pipe, data, uid = self.tx_fifo[0]
            if kind == "ack":
                self.unspecified.append("ACK payload at the head of the TX FIFO in PTX mode")
                return
            feat = self.read_reg(0x1D)
            no_ack = (kind == "noack" and bool(feat & 1)) or not bool(self.reg[1] & 1)
            dyn = bool(feat & 4) and bool(self.read_reg(0x1C) & 1)
            aw = int(self.aw())
            pkt = Packet(self, list(self.addr[0x10][:max(aw, 2)]), list(data), no_ack, uid, dyn)
            rec = {"uid": uid, "addr": pkt.addr, "data": pkt.data, "no_ack": no_ack,
                   "attempts": 0, "acked": None, "at": len(self.log)}
            self.sent.append(rec)
            retr = self.reg[4]
            arc = retr & 0x0F
            ard_ns = ((retr >> 4) + 1) * 250_000
            if no_ack:
                rec["attempts"] = 1
                self._transmit(pkt, 0)
                if self.clock:
                    self.clock.advance(500_000)
                self._later(self._done_ok(None, 0))
                continue
            # an acknowledgement is only received on pipe 0 if that pipe is enabled and holds
            # the TX address (product specification 7.4.1 / RX_ADDR_P0 description)
            ack_rx_ok = bool(self.reg[2] & 1)
            if ack_rx_ok:
                for a, b in zip(self.addr[0x0A][:aw], self.addr[0x10][:aw]):
                    if not bool(a == b):
                        ack_rx_ok = False
                        break
            rec["ack_rx_ok"] = ack_rx_ok
            k = 0
            ack = None
            while True:
                rec["attempts"] = k + 1
                ack = self._transmit(pkt, k)
                if not ack_rx_ok:
                    ack = None
                if self.clock:
                    self.clock.advance(ard_ns + 500_000)
                if ack is not None:
                    break
                if bool(k >= arc):
                    break
                k += 1
                if k > 15:
                    raise NonTermination("ARC loop")
            rec["t_done"] = self.clock.now if self.clock else 0
            if ack is not None:
                rec["acked"] = True
                self._later(self._done_ok(ack[1], k))
            else:
                rec["acked"] = False
                self._later(self._done_fail(k))
                return

    def _done_ok(self, ackpl, k):
        def fn():
            if not self.reuse and self.tx_fifo:
                self.tx_fifo.pop(0)
            self.arc_cnt = k
            bits = 0x20
            if ackpl is not None and len(ackpl):
                if len(self.rx_fifo) < 3:
                    self.rx_fifo.append((0, list(ackpl)))
                    bits |= 0x40
                else:
                    self.unspecified.append("ACK payload arrives at a full RX FIFO")
            self._set_irq(bits)
        return fn

    def _done_fail(self, k):
        def fn():
            self.arc_cnt = k
            self.plos_cnt = min(15, self.plos_cnt + 1)
            self._set_irq(0x10)
        return fn

    def _transmit(self, pkt, attempt):
        """-> None (no acknowledgement came back) or (True, ack payload | None)"""
        if self.link is not None:
            return self.link.transmit(self, pkt, attempt)
        if self.medium is not None:
            return self.medium.transmit(self, pkt, attempt)
        return None

    # ------------------------------------------------------------------ PRX
    def receive(self, pkt):
        """offer a packet; -> None (not heard / dropped) or (True, ack payload | None) when
        an acknowledgement is sent, or False when stored/heard but not acknowledged"""
        if not self.listening():
            return None
        src = pkt.src
        if bool(self.reg[5] != src.reg[5]):
            return None
        if bool((self.reg[6] & 0x28) != (src.reg[6] & 0x28)):
            return None
        if self.crc_len() != src.crc_len():
            return None
        if bool(self.reg[3] != src.reg[3]):
            return None
        feat = self.read_reg(0x1D)
        for p in range(6):
            if not bool((self.reg[2] >> p) & 1):
                continue
            mine = self.rx_addr(p)
            if len(mine) != len(pkt.addr):
                continue
            same = True
            for a, b in zip(mine, pkt.addr):
                if not bool(a == b):
                    same = False
                    break
            if not same:
                continue
            dyn = bool(feat & 4) and bool((self.read_reg(0x1C) >> p) & 1)
            if dyn != pkt.dyn:
                return None  # length field / CRC would not line up
            if not dyn and not bool(self.reg[0x11 + p] == len(pkt.data)):
                return None
            will_ack = bool((self.reg[1] >> p) & 1) and not pkt.no_ack
            if self.last_uid.get(p) == pkt.uid:
                return (True, self._ack_payload(p, feat, consume=False)) if will_ack else False
            if len(self.rx_fifo) >= 3:
                return None  # FIFO full: packet discarded, no acknowledgement
            self.last_uid[p] = pkt.uid
            self.rx_fifo.append((p, list(pkt.data)))
            self.received.append((p, list(pkt.data), pkt.uid))
            self._set_irq(0x40)
            if self.medium is not None:
                self.medium.notify_rx(self)
            if will_ack:
                return (True, self._ack_payload(p, feat, consume=True))
            return False
        return None

    def _ack_payload(self, p, feat, consume):
        if not bool(feat & 2):
            return None
        for i, e in enumerate(self.tx_fifo):
            if e[0] == "ack" and e[1] == p:
                if consume:
                    self.tx_fifo.pop(i)
                    self._set_irq(0x20)
                return e[2]
        return None

    # ------------------------------------------------------------------ helpers for harnesses
    def payload_commands(self):
        return [(c, d) for (c, d, _ce, _t) in self.log if c in (0xA0, 0xB0) or 0xA8 <= c <= 0xAD]

    def inject_rx(self, pipe, data):
        """put a payload into the RX FIFO as if it had been received"""
        if len(self.rx_fifo) < 3:
            self.rx_fifo.append((pipe, list(data)))
            self._set_irq(0x40)
            return True
        return False


# ---------------------------------------------------------------------------- buses / pins
class FakeSpiDev:
    """spidev-style bus: the class name ends in "SpiDev", so RF24 wraps it in the
    repository's own SPIDevCtx (wrapper/cpy_spidev.py is thereby under test)."""

    def __init__(self, radio):
        self.radio = radio
        self.no_cs = False
        self.opened = 0

    def open(self, bus, dev):
        self.opened += 1

    def close(self):
        self.opened -= 1

    def xfer2(self, out, baud=0):
        return self.radio.xfer(out)


class FakeBus:
    """busio.SPI-style bus used through the real adafruit_bus_device.SPIDevice"""

    def __init__(self, radio):
        self.radio = radio
        self.locked = False

    def try_lock(self):
        self.locked = True
        return True

    def unlock(self):
        self.locked = False

    def configure(self, **kw):
        pass

    def write_readinto(self, out_buf, in_buf, out_start=0, out_end=None, in_start=0, in_end=None):
        out_end = len(out_buf) if out_end is None else out_end
        in_end = len(in_buf) if in_end is None else in_end
        res = self.radio.xfer(list(out_buf[out_start:out_end]))
        for i, b in enumerate(res[: in_end - in_start]):
            in_buf[in_start + i] = b

    def write(self, buf, start=0, end=None):
        pass

    def readinto(self, buf, start=0, end=None, write_value=0):
        pass


class Pin:
    """DigitalInOut stand-in; every edge of a CE pin is logged by the radio model"""

    def __init__(self, radio=None):
        self._v = False
        self.radio = radio

    def switch_to_output(self, value=False, **kw):
        self.value = value

    @property
    def value(self):
        return self._v

    @value.setter
    def value(self, v):
        self._v = v
        if self.radio is not None:
            self.radio.ce = v
