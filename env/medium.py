"""env.medium - the air between several SimRadios, and abstract peers for one-radio harnesses.

Medium: a transmitted packet is offered to every other radio (SimRadio.receive decides
whether it hears it).  Loss is absent unless a `loss` callback says otherwise.  Scheduling of
the other nodes' software is cooperative and deterministic: a node whose radio received
something gets its `update` callback run at the next *poll point* - an SPI transaction of any
radio that is itself listening - unless that node is already on the call stack.

Symbolic schedules (`symbolic_schedule`): the first K times a pending node could run, a fresh
symbolic boolean decides whether it runs now or is held back (MCU timing jitter: the node's
software is late).  A held-back node stays pending; it runs at a later poll point, before a 4th
payload would overflow its FIFO, or when the harness lets the network settle.  All 2**K
schedules are explored by the engine as one symbolic variable per decision.
"""
from vsym.core import NonTermination


class Medium:
    def __init__(self):
        self.radios = []
        self.air = []  # ground truth of every on-air attempt
        self.nodes = {}  # radio -> [update_fn, running, pending]
        self.loss = None  # fn(src, dst, pkt, attempt) -> "ok" | "pkt" | "ack"
        self.errors = []  # (node name, exception) raised by cooperatively scheduled nodes
        self.depth = 0
        self.enabled = True
        self.defer = None  # fn(radio) -> truth value: the pending node does NOT run at this poll point (symbolic schedule)
        self.deferred = 0  # how many times a pending node was held back

    def add(self, radio):
        radio.medium = self
        self.radios.append(radio)
        return radio

    def attach_node(self, radio, update_fn):
        self.nodes[radio] = [update_fn, False, False]

    def running(self, radio, flag):
        if radio in self.nodes:
            self.nodes[radio][1] = flag

    def notify_rx(self, radio):
        if radio in self.nodes:
            self.nodes[radio][2] = True

    def poll_point(self, radio):
        if not self.enabled or not self.nodes:
            return
        if not radio.listening():
            return
        self.run_pending()

    def run_pending(self):
        if self.depth > 8:
            return
        for r, st in list(self.nodes.items()):
            if st[2] and not st[1]:
                if self.defer is not None and self.defer(r):
                    self.deferred += 1  # stays pending: runs at a later poll point, when its FIFO fills up, or at settling
                    continue
                self._run(r)

    def _run(self, r):
        st = self.nodes[r]
        st[1], st[2] = True, False
        self.depth += 1
        try:
            st[0]()
        except Exception as exc:  # attributed to that node, reported by the harness
            self.errors.append((r.name, exc))
        finally:
            self.depth -= 1
            st[1] = False

    def transmit(self, src, pkt, attempt):
        ack = None
        heard = []
        for r in self.radios:
            if r is src:
                continue
            fate = "ok" if self.loss is None else self.loss(src, r, pkt, attempt)
            if fate == "pkt":
                continue
            if len(r.rx_fifo) >= 3 and r in self.nodes and not self.nodes[r][1] and r.listening():
                # the receiving MCU keeps up with a burst: it drains its FIFO before the 4th payload arrives
                self._run(r)
            res = r.receive(pkt)
            if res is not None:
                heard.append(r.name)
            if res and fate == "ok":
                ack = res
        self.air.append({"src": src.name, "addr": pkt.addr, "data": pkt.data,
                         "no_ack": pkt.no_ack, "uid": pkt.uid, "attempt": attempt,
                         "heard": heard, "acked": ack is not None})
        return ack


def symbolic_schedule(ctx, med, k, only=None, hold=1):
    """install the symbolic schedule on `med`: K hold-back decisions (`only`: names of the radios that may be late); a node
    that is held back misses the next `hold` poll points (SPI transactions of listening radios) before it is considered again"""
    asked = [0]
    held = {}

    def defer(radio):
        if held.get(radio.name, 0) > 0:
            held[radio.name] -= 1
            return True
        if asked[0] >= k or (only is not None and radio.name not in only):
            return False
        asked[0] += 1
        if bool(ctx.bool("late_%d" % (asked[0] - 1))):
            held[radio.name] = hold - 1
            return True
        return False
    med.defer = defer
    return asked


class ScriptedLink:
    """abstract peer for one-radio harnesses: the n-th on-air attempt of the run is acknowledged iff
    `acks(n)` (typically a fresh symbolic boolean per attempt: the fault schedule); an
    acknowledged attempt carries `ackpl(n)` (None or bytes) as ACK payload."""

    def __init__(self, acks, ackpl=None, by_packet=False):
        self.acks, self.ackpl, self.by_packet = acks, ackpl, by_packet
        self.count = 0  # on-air attempts so far (every attempt gets its own fault variable)
        self.on_air = []

    def transmit(self, radio, pkt, attempt):
        n = self.count
        self.count += 1
        self.on_air.append((pkt.uid, attempt, list(pkt.addr), list(pkt.data), pkt.no_ack))
        if pkt.no_ack:
            return None
        ok = self.acks(n, pkt) if self.by_packet else self.acks(n)
        if bool(ok):
            return (True, self.ackpl(n) if self.ackpl else None)
        return None
