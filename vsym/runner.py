"""vsym.runner - runs the obligations of a check: exploration per job (in a process pool),
translation validation of sampled paths, replay of counterexamples, known findings,
evidence file, exit code.

Exit codes: 0 = every obligation holds on everything explored (known findings are printed);
1 = a replayed violation that is not a listed known finding; 2 = inconclusive / harness error.
"""
import hashlib
import json
import multiprocessing
import os
import random
import sys
import time
import traceback
import zlib

VERIF = os.path.dirname(os.path.dirname(os.path.abspath(__file__)))
KF_FILE = os.path.join(VERIF, "known_findings.json")


class Job:
    def __init__(self, obligation, fn, params=None, cost=1, max_paths=200000, budget_s=1500, shards=1, crosscheck=False):
        self.shards = shards
        self.crosscheck = crosscheck  # closed lemma: re-check every query with /usr/bin/z3 and cvc5
        self.obligation = obligation
        self.fn = fn
        self.params = params or {}
        self.cost = cost
        self.max_paths = max_paths
        self.budget_s = budget_s

    def key(self):
        return "%s%s" % (self.obligation, json.dumps(self.params, sort_keys=True))


def load_known():
    if not os.path.exists(KF_FILE):
        return {"findings": [], "fixed": []}
    with open(KF_FILE) as f:
        return json.load(f)


def open_finding_ids(prop):
    return [k["id"] for k in load_known()["findings"]
            if k.get("status", "open") == "open" and prop in k.get("properties", [k.get("property")])]


# ------------------------------------------------------------------------------ one job
REPO = os.path.realpath(os.environ.get("VERIF_REPO", "/repo")) + "/"


def _profile_functions(store):
    def prof(frame, event, arg):
        if event == "call":
            co = frame.f_code
            fn = co.co_filename
            if fn.startswith(REPO):
                store.add("%s:%s" % (fn[len(REPO):], co.co_qualname))
    return prof


def run_concrete(fn, params, witness):
    """run a harness on plain Python values; -> (outcome, label, ctx, exc)"""
    from . import ctx as C
    from .core import PathAbort, NonTermination, EngineSignal
    C.set_symbolic(False)
    c = C.ConcCtx(witness)
    try:
        fn(c, **params)
        return "ok", None, c, None
    except C.CheckFailed as e:
        return "check", e.label, c, e
    except PathAbort as e:
        return "abort", None, c, e
    except NonTermination as e:
        return "nonterm", "non-termination", c, e
    except EngineSignal as e:
        return "engine", str(e), c, e
    except Exception as e:  # noqa
        if not _raised_in_repo(e):
            return "harness", "exception raised outside the code under test: %r" % e, c, e
        return "exc", "unexpected exception: %s" % type(e).__name__, c, e


def _raised_in_repo(e):
    """an escaping exception counts against the code under test only if the innermost Python
    frame of its traceback belongs to the repository (otherwise it is a harness / model error)"""
    tb = [f for f in traceback.extract_tb(e.__traceback__)
          if not os.path.realpath(f.filename).startswith(os.path.join(VERIF, "vsym") + os.sep)]  # proxies act as builtins
    return bool(tb) and os.path.realpath(tb[-1].filename).startswith(REPO)


def run_job(args):
    """explore one job symbolically; returns a result dict (picklable)"""
    mod_name, job_index, tier, seed, validate, shard = args
    import importlib
    from . import ctx as C
    from .core import (ENGINE, PathAbort, ViolationFound, EngineLimit, NonTermination,
                       EngineSignal)
    mod = importlib.import_module(mod_name)
    job = mod.jobs(tier)[job_index]
    rng = random.Random((seed * 1000003) ^ zlib.crc32(job.key().encode()))
    eng = ENGINE
    eng.reset_stats()
    eng.shard = shard
    eng.crosscheck = job.crosscheck
    open_kf = open_finding_ids(mod.PROPERTY)
    res = {"job": job.key() + ("" if shard is None else " shard %d/%d" % (shard[0] + 1, shard[1])), "obligation": job.obligation, "params": job.params, "paths": 0,
           "completed": 0, "aborted": 0, "decisions": 0, "queries": 0, "solver_s": 0.0,
           "validated": 0, "violation": None, "inconclusive": None, "functions": [],
           "labels": {}, "reach": {}, "samples": [], "harness_error": None, "wall_s": 0.0, "cross": []}
    funcs = set()
    t0 = time.time()
    work = [[]]
    try:
        while work:
            prefix = work.pop()
            res["paths"] += 1
            if res["paths"] > job.max_paths:
                res["inconclusive"] = "path budget %d exhausted" % job.max_paths
                break
            if time.time() - t0 > (job.budget_s if tier == "thorough" else min(job.budget_s, 300)):
                res["inconclusive"] = "time budget %ds exhausted after %d paths" % (
                    job.budget_s, res["paths"])
                break
            C.set_symbolic(True)
            eng.begin(prefix, work)
            c = C.SymCtx(eng, open_kf)
            viol = None
            completed = False
            if res["paths"] == 1:
                sys.setprofile(_profile_functions(funcs))
            try:
                try:
                    job.fn(c, **job.params)
                    completed = True
                finally:
                    exc_now = sys.exc_info()[0]
                    if exc_now is None or not issubclass(exc_now, (ViolationFound, EngineLimit, PathAbort)):
                        eng.flush()  # decide the deferred checks of this path
            except PathAbort:
                res["aborted"] += 1
            except ViolationFound as v:
                viol = (v.label, eng.model_values(v.model), v.detail)
            except NonTermination as e:
                m = eng.path_model()
                viol = ("non-termination", eng.model_values(m) if m else {}, str(e))
            except EngineLimit as e:
                res["inconclusive"] = "engine limit: %s" % e
            except EngineSignal as e:
                res["inconclusive"] = "engine signal: %r" % e
            except RecursionError as e:
                res["inconclusive"] = "recursion limit in harness: %s" % e
            except Exception as e:  # an exception escaping the harness = violation candidate
                if not _raised_in_repo(e):
                    res["harness_error"] = "exception raised outside the code under test:\n" + traceback.format_exc(limit=-8)
                    eng.end()
                    break
                m = None
                try:
                    m = eng.path_model()
                except EngineSignal:
                    pass
                tb = traceback.format_exc(limit=-6)
                viol = ("unexpected exception: %s" % type(e).__name__,
                        eng.model_values(m) if m else {}, tb)
            finally:
                sys.setprofile(None)
            if res["inconclusive"]:
                eng.end()
                break
            if viol is not None:
                eng.end()
                res["violation"] = {"label": viol[0], "inputs": viol[1], "detail": str(viol[2])[:3000]}
                break
            if completed and shard is not None and shard[0] != 0 and not eng.gated:
                completed = False  # paths shorter than the sharding depth belong to shard 0
                res["aborted"] += 1
            if completed:
                res["completed"] += 1
                for k, n in c.reach.items():
                    res["reach"][k] = res["reach"].get(k, 0) + n
                # translation validation of this path against the unshadowed implementation
                do_val = validate and (res["validated"] < 12 or rng.random() < 0.03)
                want_sample = len(res["samples"]) < 2
                if do_val or want_sample:
                    m = eng.path_model()
                    if m is not None:
                        wit = eng.model_values(m)
                        if want_sample:
                            res["samples"].append({"obligation": job.obligation,
                                                   "params": job.params, "path_inputs": _short(wit)})
                        if do_val:
                            sym_obs = c.eval_obs(m)
                            co = None
                            if res.get("validated_coincident", 0) < 6 or rng.random() < 0.2:
                                m2 = eng.coincidence_model()
                                if m2 is not None:
                                    co = (eng.model_values(m2), c.eval_obs(m2))
                            eng.end()
                            out, label, cc, exc = run_concrete(job.fn, job.params, wit)
                            if out != "ok":
                                res["harness_error"] = (
                                    "translation validation: symbolic path holds but the concrete "
                                    "run gives %s %s (%r) for inputs %s" % (out, label, exc, _short(wit)))
                                break
                            if _norm(sym_obs) != _norm(cc.obs):
                                res["harness_error"] = (
                                    "translation validation: observations differ for inputs %s:\n"
                                    " symbolic %s\n concrete %s" % (_short(wit), _norm(sym_obs)[:6],
                                                                    _norm(cc.obs)[:6]))
                                break
                            res["validated"] += 1
                            # ... and once more under a model in which all byte-string inputs coincide (equal / prefix /
                            # substring relations between addresses and buffers that a default model rarely exhibits)
                            if co is not None:
                                if True:
                                    wit2, obs2 = co
                                    out, label, cc, exc = run_concrete(job.fn, job.params, wit2)
                                    if out != "ok" or _norm(obs2) != _norm(cc.obs):
                                        res["harness_error"] = (
                                            "translation validation (coincident byte inputs): symbolic path holds but the "
                                            "concrete run gives %s %s (%r) / different observations for inputs %s"
                                            % (out, label, exc, _short(wit2)))
                                        break
                                    res["validated_coincident"] = res.get("validated_coincident", 0) + 1
            eng.end()
    except Exception:  # harness / engine bug
        res["harness_error"] = traceback.format_exc()
    finally:
        try:
            eng.end()
            C.set_symbolic(False)
        except Exception:
            pass
    res["decisions"] = eng.n_decisions
    res["queries"] = eng.n_queries
    res["solver_s"] = round(eng.solver_s, 3)
    res["labels"] = dict(eng.labels)
    res["functions"] = sorted(funcs)
    res["cross"] = list(eng.cross)
    if eng.sites:
        print("fork sites of %s:" % job.key())
        for k, n in sorted(eng.sites.items(), key=lambda kv: -kv[1])[:25]:
            print("  %6d %s" % (n, k))
    res["wall_s"] = round(time.time() - t0, 2)
    return res


def _short(w, n=40):
    items = sorted(w.items())
    if len(items) > n:
        items = items[:n] + [("...", len(w) - n)]
    return dict(items)


def _norm(obs):
    return json.loads(json.dumps(obs, default=str))


# ------------------------------------------------------------------------------ a check
def replay_file(mod, path):
    with open(path) as f:
        rec = json.load(f)
    job = _find_job(mod, rec)
    out, label, cc, exc = run_concrete(job.fn, rec["params"], rec["inputs"])
    return rec, out, label, exc


def _find_job(mod, rec):
    for tier in ("quick", "thorough"):
        for j in mod.jobs(tier):
            if j.obligation == rec["obligation"] and j.params == rec["params"]:
                return j
    for tier in ("quick", "thorough"):
        for j in mod.jobs(tier):
            if j.obligation == rec["obligation"]:
                return Job(j.obligation, j.fn, rec["params"])
    raise SystemExit("no such obligation: %s" % rec["obligation"])


def _same_failure(label, out, got_label):
    if out == "ok" or out == "abort" or out == "engine":
        return False
    if label.startswith("unexpected exception"):
        return out == "exc" and got_label == label
    if label == "non-termination":
        return out == "nonterm"
    return out == "check"  # any failing clause of the obligation on this input


def main(mod, argv=None):
    import argparse
    ap = argparse.ArgumentParser()
    ap.add_argument("--tier", default=os.environ.get("VERIF_TIER", "quick"))
    ap.add_argument("--replay")
    ap.add_argument("--only", help="substring filter on obligation names (debugging)")
    ap.add_argument("--procs", type=int, default=0)
    ap.add_argument("--no-evidence", action="store_true")
    ap.add_argument("--all", action="store_true", help="do not stop at the first replayed violation")
    a = ap.parse_args(argv)
    prop = mod.PROPERTY
    seed = int(os.environ.get("VERIF_SEED", "0") or 0)
    tier = a.tier if a.tier in ("quick", "thorough") else "quick"

    if a.replay:
        rec, out, label, exc = replay_file(mod, a.replay)
        print("replay %s: obligation=%s params=%s" % (a.replay, rec["obligation"], rec["params"]))
        print("recorded failure: %s" % rec["label"])
        if _same_failure(rec["label"], out, label):
            print("REPRODUCED: %s %s %r" % (out, label, exc))
            print("VIOLATION property=%s replay=%s" % (prop, a.replay))
            return 1
        print("not reproduced: concrete run gives %s %s %r" % (out, label, exc))
        return 0

    t0 = time.time()
    jobs = mod.jobs(tier)
    idx = [i for i, j in enumerate(jobs) if not a.only or a.only in j.key()]
    idx.sort(key=lambda i: -jobs[i].cost)
    nproc = a.procs or min(len(idx), os.cpu_count() or 4, 16)
    args = []
    for i in idx:
        n = jobs[i].shards
        args.extend([(mod.__name__, i, tier, seed, True, (k, n) if n > 1 else None) for k in range(n)])
    results = []
    confirmed = {}  # job key -> (path, replay text) of violations that reproduced on the real code
    rep_dir = os.path.join(VERIF, "replays", prop)
    budget = int(os.environ.get("VERIF_JOB_BUDGET_S", "0") or 0)

    def on_result(r):
        """replay a counterexample as soon as it arrives; -> True to stop early (fail fast)"""
        results.append(r)
        if os.environ.get("VSYM_VERBOSE"):
            print("  done %-90s paths=%d wall=%.1fs %s" % (r["job"][:90], r["paths"], r["wall_s"],
                  "VIOL" if r["violation"] else (r["inconclusive"] or r["harness_error"] or "")[:200]), flush=True)
        if not r["violation"]:
            return False
        v = r["violation"]
        rec = {"property": prop, "obligation": r["obligation"], "params": r["params"],
               "inputs": v["inputs"], "label": v["label"], "tier": tier, "detail": v["detail"]}
        job = _find_job(mod, rec)
        out, label, cc, exc = run_concrete(job.fn, rec["params"], rec["inputs"])
        v["replay"] = (out, label, repr(exc))
        if _same_failure(v["label"], out, label):
            os.makedirs(rep_dir, exist_ok=True)
            h = hashlib.sha1(json.dumps(rec, sort_keys=True).encode()).hexdigest()[:12]
            path = os.path.join(rep_dir, "%s.json" % h)
            rec["replayed"] = "%s %s %r" % (out, label, exc)
            with open(path, "w") as f:
                json.dump(rec, f, indent=1, sort_keys=True)
            confirmed[r["job"]] = path
            return not a.all
        return False

    stopped_early = False
    if nproc <= 1:
        for x in args:
            if on_result(run_job(x)):
                stopped_early = True
                break
    else:
        mpctx = multiprocessing.get_context("fork")
        with mpctx.Pool(nproc, maxtasksperchild=8) as pool:
            for r in pool.imap_unordered(run_job, args, chunksize=1):
                if on_result(r):
                    stopped_early = True
                    pool.terminate()
                    break
    results.sort(key=lambda r: r["job"])

    exit_code = 0
    violations = 0
    messages = []
    # 1. known findings: replay each listed witness on the real code
    known = load_known()
    for kf in known["findings"]:
        if kf.get("status", "open") != "open" or prop not in kf.get("properties", [kf.get("property")]):
            continue
        if kf.get("check_property", prop) != prop:
            continue
        try:
            job = _find_job(mod, kf["witness"])
            out, label, cc, exc = run_concrete(job.fn, kf["witness"]["params"], kf["witness"]["inputs"])
        except SystemExit:
            out, label = "missing", None
        if _same_failure(kf["witness"]["label"], out, label):
            print("KNOWN-FINDING: property=%s %s [%s]" % (prop, kf["what"], kf["id"]))
        else:
            messages.append("note: known finding %s no longer reproduces (%s %s)" % (kf["id"], out, label))

    # 2. results of the exploration
    soft = 0
    for r in results:
        if r["harness_error"]:
            soft = 2
            messages.append("HARNESS-ERROR %s: %s" % (r["job"], r["harness_error"]))
            continue
        if r["violation"]:
            v = r["violation"]
            out, label, exc = v["replay"]
            if r["job"] in confirmed:
                violations += 1
                print("violated: %s %s: %s\n  inputs %s\n  concrete replay: %s %s %s" % (
                    r["obligation"], r["params"], v["label"], _short(v["inputs"], 60), out, label, exc))
                print("VIOLATION property=%s replay=%s" % (prop, confirmed[r["job"]]))
            else:
                soft = 2
                messages.append(
                    "HARNESS-ERROR %s: counterexample for '%s' does not reproduce on the real code "
                    "(concrete run: %s %s %s); inputs %s\n%s" % (
                        r["job"], v["label"], out, label, exc, _short(v["inputs"], 60), v["detail"]))
            continue
        if r["inconclusive"]:
            soft = 2
            messages.append("INCONCLUSIVE %s: %s" % (r["job"], r["inconclusive"]))
            continue
        base = r["job"].split(" shard ")[0]
        group = [x for x in results if x["job"].split(" shard ")[0] == base]
        if not any(x["reach"].get("end") for x in group):
            soft = 2
            messages.append("VACUOUS %s: no path reached the end of the harness" % base)
        if not any(x["labels"] for x in group):
            soft = 2
            messages.append("VACUOUS %s: no check was evaluated" % base)
    if stopped_early:
        messages.append("note: stopped at the first replayed violation (%d of %d obligations finished); --all explores everything"
                        % (len(results), len(args)))
    # a replayed violation is definitive and takes precedence over inconclusive obligations
    exit_code = 1 if violations else soft
    for m in messages:
        print(m)

    wall = time.time() - t0
    tot = lambda k: sum(r[k] for r in results)
    funcs = sorted({f for r in results for f in r["functions"]})
    discharged = sum(1 for r in results if not (r["violation"] or r["inconclusive"] or r["harness_error"]))
    labels = {}
    for r in results:
        for k, n in r["labels"].items():
            labels[k] = labels.get(k, 0) + n
    meta = getattr(mod, "META", {})
    samples = []
    for r in results:
        samples.extend(r["samples"][:1])
    rng = random.Random(seed)
    rng.shuffle(samples)
    ev = {
        "property_id": prop, "tier": tier, "seed": seed, "level": "model_checking",
        "wall_s": round(wall, 2), "violations": violations,
        "coverage": {
            "states": max(1, tot("paths")), "transitions": max(1, tot("decisions")),
            "traces_validated_against_impl": tot("validated"),
            "samples": samples[:8] or [{"note": "no completed path"}],
            "obligations": len(results), "discharged": discharged,
            "paths_completed": tot("completed"), "paths_infeasible_or_assumed_away": tot("aborted"),
            "queries": tot("queries"), "solver_s": round(tot("solver_s"), 2),
            "check_labels_reached": labels,
            "cross_solver": _cross_summary(results),
            "functions_encoded": funcs,
            "ifconv_sites": _ifconv_sites(),
            "bounds": meta.get("bounds", {}).get(tier, meta.get("bounds", "")),
            "outside_bounds": meta.get("outside", []),
            "per_obligation": [{"job": r["job"], "paths": r["paths"], "queries": r["queries"],
                                "solver_s": r["solver_s"], "wall_s": r["wall_s"],
                                "validated": r["validated"],
                                "status": ("violation" if r["violation"] else "inconclusive" if r["inconclusive"]
                                           else "error" if r["harness_error"] else "holds")}
                               for r in results][:400],
            "explanation": "bounded symbolic execution of the real modules under /repo (vsym proxies over "
                           "z3 bit-vectors); a path = one feasible sequence of branch decisions, a transition = "
                           "one decision; every check is the query path-condition AND NOT clause",
            "exhaustive": False,
        },
        "assumptions": meta.get("assumptions", []),
    }
    if not a.no_evidence and not a.only:
        os.makedirs(os.path.join(VERIF, "evidence"), exist_ok=True)
        with open(os.path.join(VERIF, "evidence", "%s.json" % prop), "w") as f:
            json.dump(ev, f, indent=1, sort_keys=True, default=str)
    print("%s %s: %d obligations, %d discharged, %d paths, %d queries, solver %.1fs, validated %d, wall %.1fs -> exit %d" % (
        prop, tier, len(results), discharged, tot("paths"), tot("queries"), tot("solver_s"),
        tot("validated"), wall, exit_code))
    return exit_code


def _cross_summary(results):
    """closed lemmas re-checked with /usr/bin/z3 4.8.12 and cvc5 1.0 (SMT-LIB2 dump of the same query)"""
    out = {"queries": 0}
    for r in results:
        for c in r.get("cross", []):
            out["queries"] += 1
            for name, ans in c.items():
                key = "%s:%s" % (name, ans.split(":")[0])
                out[key] = out.get(key, 0) + 1
    return out


def _ifconv_sites():
    try:
        from . import ctx as C
        return [s.replace(REPO, "") for s in C.ifconv_sites()]
    except Exception as e:  # noqa
        return ["error: %r" % e]
