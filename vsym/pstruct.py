"""vsym.pstruct - symbolic model of struct.pack/unpack for the integer formats the
repository uses ("HHHBB" native, "<H", "<h", "<i", "b", ">b", "B").  Range errors fork and
raise struct.error exactly like the real module; concrete arguments are delegated to it."""
import struct as _real

import z3

from .core import SInt, SBool, SBytes, SBytesBase, ENGINE

error = _real.error
calcsize = _real.calcsize


def unpack_from(fmt, buffer, offset=0):
    if not isinstance(buffer, SBytesBase):
        return _real.unpack_from(fmt, buffer, offset)
    n = _real.calcsize(fmt)
    off = offset.__index__()
    if len(buffer) - off < n:
        raise error("unpack_from requires a buffer of at least %d bytes" % n)
    return unpack(fmt, buffer[off:off + n])
_SIZES = {"b": (1, True), "B": (1, False), "h": (2, True), "H": (2, False),
          "i": (4, True), "I": (4, False), "l": (4, True), "L": (4, False)}


def _parse(fmt):
    order = "@"
    body = fmt
    if fmt and fmt[0] in "@=<>!":
        order, body = fmt[0], fmt[1:]
    items, off = [], 0
    for ch in body:
        if ch == "x":  # pad byte: takes space, no value
            off += 1
            continue
        if ch not in _SIZES or (order == "@" and ch in "lL"):
            raise NotImplementedError("struct format %r" % fmt)
        size, signed = _SIZES[ch]
        if order == "@" and off % size:
            off += size - off % size  # native alignment
        items.append((off, size, signed))
        off += size
    big = order in ">!" or (order in "@=" and _real.pack("H", 1) == b"\0\1")
    assert off == _real.calcsize(fmt), fmt
    return items, off, big


def _sym(args):
    return any(isinstance(a, (SInt, SBool, SBytesBase)) for a in args)


def pack(fmt, *vals):
    if not _sym(vals):
        return _real.pack(fmt, *vals)
    items, total, big = _parse(fmt)
    if len(items) != len(vals):
        raise error("pack expected %d items for packing (got %d)" % (len(items), len(vals)))
    out = [0] * total
    for (off, size, signed), v in zip(items, vals):
        lo = -(1 << (8 * size - 1)) if signed else 0
        hi = (1 << (8 * size - 1)) - 1 if signed else (1 << (8 * size)) - 1
        if not isinstance(v, SInt):
            l = SInt.lift(v)
            if l is None:
                raise error("required argument is not an integer")
            v = SInt(*l)
        if v.lo < lo or v.hi > hi:
            if ENGINE.branch(z3.Or(v.t < lo, v.t > hi)):
                raise error("format requires %d <= number <= %d" % (lo, hi))
        bs = [(v >> (8 * i)) & 0xFF for i in range(size)]
        if big:
            bs.reverse()
        out[off:off + size] = bs
    return SBytes(out)


def unpack(fmt, buf):
    if not isinstance(buf, SBytesBase):
        return _real.unpack(fmt, buf)
    if not any(isinstance(x, SInt) for x in buf.v):
        return _real.unpack(fmt, bytes(buf.v))
    items, total, big = _parse(fmt)
    if len(buf) != total:
        raise error("unpack requires a buffer of %d bytes" % total)
    res = []
    for off, size, signed in items:
        bs = buf.v[off:off + size]
        if big:
            bs = bs[::-1]
        v = 0
        for i, b in enumerate(bs):
            v = v | (b << (8 * i))
        if signed:
            sign = 1 << (8 * size - 1)
            v = (v ^ sign) - sign
        res.append(v)
    return tuple(res)


def selftest():
    """compare the model with the real module on boundary values (run at set-up)"""
    import itertools
    n = 0
    for fmt, vals in (("HHHBB", [(0, 1, 0xFFFF, 0, 255), (0xFFF, 0o4444, 513, 128, 7)]),
                      ("<H", [(0,), (65535,), (0x1234,)]), ("<h", [(-32768,), (32767,), (-2,)]),
                      ("<i", [(-2 ** 31,), (2 ** 31 - 1,), (-1,), (0x123456,)]),
                      ("b", [(-128,), (127,)]), (">b", [(-25,), (5,)]), ("B", [(0,), (255,)])):
        items, total, big = _parse(fmt)
        for tup in vals:
            real = _real.pack(fmt, *tup)
            out = [0] * total
            for (off, size, signed), v in zip(items, tup):
                bs = [(v >> (8 * i)) & 0xFF for i in range(size)]
                if big:
                    bs.reverse()
                out[off:off + size] = bs
            assert bytes(out) == real, (fmt, tup)
            res = []
            for off, size, signed in items:
                bs = list(real[off:off + size])
                if big:
                    bs = bs[::-1]
                v = 0
                for i, b in enumerate(bs):
                    v |= b << (8 * i)
                if signed:
                    sign = 1 << (8 * size - 1)
                    v = (v ^ sign) - sign
                res.append(v)
            assert tuple(res) == _real.unpack(fmt, real), (fmt, tup)
            n += 1
    return n
