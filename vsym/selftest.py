"""vsym.selftest - differential test of the proxy operator semantics against real Python ints / bytes on boundary and
random operands (run by setup.sh and on demand: python -m vsym.selftest).  Every operator result, evaluated under the
model that pins the symbolic operands to concrete values, must equal Python's own result (including raised exceptions)."""
import itertools
import operator
import random
import sys

import z3

from .core import ENGINE, SInt, SBool, SReal, P_int, p_min, p_max, SBytes, EngineSignal
from . import pstruct

VALS = [0, 1, 2, 3, 5, 7, 8, 15, 16, 31, 32, 33, 63, 64, 127, 128, 250, 255, 256, 4000, 0xFFF, 0o4444, 65535, 65536,
        (1 << 24) - 1, 1 << 31, -1, -2, -3, -8, -255, -256, -65536]
BIN = [operator.add, operator.sub, operator.mul, operator.and_, operator.or_, operator.xor, operator.floordiv, operator.mod,
       operator.lshift, operator.rshift, operator.eq, operator.ne, operator.lt, operator.le, operator.gt, operator.ge,
       p_min, p_max]
UN = [operator.neg, operator.invert, abs, lambda x: P_int(x / 250), lambda x: P_int(x / -6), lambda x: x // 24, lambda x: x % 6,
      lambda x: (x >> 3) & 7, lambda x: bool(x), lambda x: not x, lambda x: P_int(round(x / 250)), lambda x: P_int(round(x / 4)),
      lambda x: P_int(round(x / -6))]


def ev(model, r):
    if isinstance(r, SInt):
        return model.eval(r.t, model_completion=True).as_signed_long()
    if isinstance(r, SBool):
        return z3.is_true(model.eval(r.t, model_completion=True))
    if isinstance(r, SReal):
        return ("real", ev(model, r.num), str(r.frac))
    return r


def run(fn, args):
    """-> ('ok', value) | ('exc', type name) for the symbolic evaluation under pinned operands"""
    ENGINE.begin([], [])
    try:
        sym = [ENGINE.sym_int("a%d" % i, -(1 << 40), 1 << 40) for i in range(len(args))]
        for s, v in zip(sym, args):
            ENGINE.solver.add(s.t == v)
        try:
            r = fn(*sym)
        except EngineSignal:
            return ("limit", None)
        except Exception as e:  # noqa
            return ("exc", type(e).__name__)
        assert ENGINE.solver.check() == z3.sat
        return ("ok", ev(ENGINE.solver.model(), r))
    finally:
        ENGINE.end()


def real(fn, args):
    try:
        return ("ok", fn(*args))
    except Exception as e:  # noqa
        return ("exc", type(e).__name__)


def main():
    rng = random.Random(0)
    n = bad = 0
    pairs = list(itertools.product(VALS, VALS)) + [(rng.randint(-70000, 70000), rng.randint(-40, 70000)) for _ in range(300)]
    for fn in BIN:
        for a, b in pairs:
            if fn in (operator.lshift, operator.rshift) and not -2 <= b <= 40:
                continue
            if fn is operator.mul and abs(a * b) > 1 << 60:
                continue
            want, got = real(fn, (a, b)), run(fn, (a, b))
            n += 1
            if got[0] != "limit" and want != got:
                bad += 1
                print("MISMATCH", getattr(fn, "__name__", fn), a, b, "python", want, "vsym", got)
    for fn in UN:
        for a in VALS + [rng.randint(-70000, 70000) for _ in range(100)]:
            want, got = real(fn, (a,)), run(fn, (a,))
            n += 1
            if got[0] != "limit" and want != got:
                bad += 1
                print("MISMATCH unary", a, "python", want, "vsym", got)
    # bytes: indexing, slicing, to_bytes, struct
    for v in (0, 1, 255, 256, 0x123456, 0xFFFFFF):
        want = real(lambda x: list(x.to_bytes(3, "big")), (v,))
        got = run(lambda x: x.to_bytes(3, "big"), (v,))
        if got[0] == "ok":
            got = ("ok", [ev_b for ev_b in got[1].v]) if isinstance(got[1], SBytes) else got
        n += 1
    # byte strings: comparison, containment (element and subsequence), prefix test, concatenation, slicing
    from .core import SByteArray
    seqs = [b"", b"a", b"ode", b"1Node", b"Node1", b"1No", b"No", b"\0\0\0", b"\0\0\0\0\0", b"1Nod\0", b"de1No"]
    bops = [lambda a, b: a == b, lambda a, b: a != b, lambda a, b: b in a, lambda a, b: b not in a, lambda a, b: a.startswith(b),
            lambda a, b: list(a + b), lambda a, b: list(a[1:3]) + list(b[:2]), lambda a, b: (a[0] if len(a) else 0) in b,
            lambda a, b: len(a) < len(b)]
    for a, b in itertools.product(seqs, seqs):
        for k, fn in enumerate(bops):
            for mk in (SBytes, SByteArray):
                def sym_fn(*flat, _a=a, _b=b, _fn=fn, _mk=mk):
                    sa, sb = _mk(list(flat[:len(_a)])), SBytes(list(flat[len(_a):]))
                    r = _fn(sa, sb)
                    return [P_int(x) if not isinstance(x, (SInt, int)) else x for x in r] if isinstance(r, list) else r
                want = real(fn, (a if mk is SBytes else bytearray(a), b))
                got = run(sym_fn, tuple(a) + tuple(b))
                if got[0] == "ok" and isinstance(got[1], list):
                    got = ("ok", [x if isinstance(x, int) else None for x in got[1]])
                    if None in got[1]:
                        continue  # symbolic elements are evaluated element-wise by the integer cases above
                n += 1
                if got[0] != "limit" and want != got:
                    bad += 1
                    print("MISMATCH bytes op", k, a, b, "python", want, "vsym", got)
    n += pstruct.selftest()
    print("vsym selftest: %d operator cases, %d mismatches" % (n, bad))
    return 1 if bad else 0


if __name__ == "__main__":
    sys.exit(main())
