"""vsym.symcoll - dict / set whose keys may be symbolic (association lists; lookups fork on
key equality)."""
from .core import s_or


class SymDict:
    def __init__(self, items=()):
        self.kv = [list(i) for i in (items.items() if isinstance(items, dict) else items)]

    def _find(self, k):
        for i, (kk, _v) in enumerate(self.kv):
            if bool(kk == k):
                return i
        return -1

    def __getitem__(self, k):
        i = self._find(k)
        if i < 0:
            raise KeyError(k)
        return self.kv[i][1]

    def __setitem__(self, k, v):
        i = self._find(k)
        if i < 0:
            self.kv.append([k, v])
        else:
            self.kv[i][1] = v

    def __delitem__(self, k):
        i = self._find(k)
        if i < 0:
            raise KeyError(k)
        del self.kv[i]

    def __contains__(self, k):
        return self._find(k) >= 0

    def get(self, k, d=None):
        i = self._find(k)
        return d if i < 0 else self.kv[i][1]

    def items(self):
        return _Guarded(self, [(k, v) for k, v in self.kv])

    def keys(self):
        return _Guarded(self, [k for k, _ in self.kv])

    def values(self):
        return _Guarded(self, [v for _, v in self.kv])

    def __iter__(self):
        return iter(self.keys())

    def __len__(self):
        return len(self.kv)

    def __bool__(self):
        return bool(self.kv)

    def copy(self):
        return SymDict([list(p) for p in self.kv])

    def __repr__(self):
        return "SymDict(%r)" % (self.kv,)


class _Guarded:
    """iteration view that raises RuntimeError when the dict changes size during iteration,
    as CPython's dict views do"""

    def __init__(self, d, seq):
        self.d, self.seq, self.n = d, seq, len(d.kv)

    def __iter__(self):
        for x in self.seq:
            if len(self.d.kv) != self.n:
                raise RuntimeError("dictionary changed size during iteration")
            yield x
        if len(self.d.kv) != self.n:
            raise RuntimeError("dictionary changed size during iteration")

    def __len__(self):
        return len(self.seq)


class SymSet:
    """set() stand-in.  While every element is a plain hashable value it IS a real set (same
    iteration order as CPython's); it degrades to an insertion-ordered list on the first
    symbolic element."""

    def __init__(self, items=()):
        self.real = set()
        self.v = None
        for x in items:
            self.add(x)

    @staticmethod
    def _plain(x):
        return isinstance(x, (int, str, bytes, tuple, frozenset)) or x is None

    def add(self, x):
        if self.v is None:
            if self._plain(x):
                self.real.add(x)
                return
            self.v = list(self.real)
        for y in self.v:
            if bool(y == x):
                return
        self.v.append(x)

    def _items(self):
        return list(self.real) if self.v is None else list(self.v)

    def __contains__(self, x):
        if self.v is None and self._plain(x):
            return x in self.real
        return bool(s_or(*[y == x for y in self._items()]))

    def __len__(self):
        return len(self._items())

    def __bool__(self):
        return bool(self._items())

    def __iter__(self):
        return iter(self._items())

    def __repr__(self):
        return "SymSet(%r)" % (self._items(),)
