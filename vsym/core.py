"""vsym.core - proxy-object symbolic execution over z3 bit-vectors.

CPython executes the *real* code under test; the integers, booleans and byte strings that
depend on inputs are proxy objects carrying z3 terms.  A truth test on an undecided term
forks the path (decision-prefix replay, depth first); `check()` asks z3 whether the negated
clause is satisfiable under the path condition.

Soundness device for `int`: every SInt carries a conservative interval [lo, hi]; as long as
it stays inside +-2**62 the 64-bit bit-vector operation coincides with Python's unbounded
integer operation.  Leaving the guard raises EngineLimit (the run is then *inconclusive*,
never "holds").
"""
import time as _time
from fractions import Fraction

import z3

import os as _os

W = 64
PROFILE_SITES = bool(_os.environ.get("VSYM_PROFILE_SITES"))
_LIM = 1 << (W - 2)


class EngineSignal(BaseException):
    """base of all engine control-flow exceptions (BaseException so that the code under
    test cannot swallow them with `except Exception`)."""


class EngineLimit(EngineSignal):
    """the engine cannot continue soundly (bound exceeded, unsupported operation)"""


class PathAbort(EngineSignal):
    """current path is infeasible / an assumption failed"""


class ViolationFound(EngineSignal):
    def __init__(self, label, model, detail=None):
        super().__init__(label)
        self.label, self.model, self.detail = label, model, detail


class NonTermination(EngineSignal):
    """the environment's step budget was exhausted on this path"""


def _bv(v):
    return z3.BitVecVal(v, W)


def _chk(lo, hi):
    if lo < -_LIM or hi > _LIM:
        raise EngineLimit("interval [%d,%d] exceeds the BV%d guard" % (lo, hi, W))
    return lo, hi


def _bitmax(*vals):
    m = max(abs(v) for v in vals)
    return (1 << m.bit_length()) - 1


def is_sym(x):
    return isinstance(x, (SInt, SBool, SBytesBase, SReal))


# ------------------------------------------------------------------------------- booleans
class SBool:
    __slots__ = ("t",)

    def __init__(self, t):
        self.t = t

    def __bool__(self):
        return ENGINE.branch(self.t)

    def __and__(self, o):
        if isinstance(o, SBool):
            return SBool(z3.And(self.t, o.t))
        if isinstance(o, bool):
            return self if o else False
        return SInt.of_bool(self) & o

    __rand__ = __and__

    def __or__(self, o):
        if isinstance(o, SBool):
            return SBool(z3.Or(self.t, o.t))
        if isinstance(o, bool):
            return True if o else self
        return SInt.of_bool(self) | o

    __ror__ = __or__

    def __xor__(self, o):
        if isinstance(o, SBool):
            return SBool(z3.Xor(self.t, o.t))
        if isinstance(o, bool):
            return SBool(z3.Not(self.t)) if o else self
        return SInt.of_bool(self) ^ o

    __rxor__ = __xor__

    def __invert__(self):
        return ~SInt.of_bool(self)

    def __eq__(self, o):
        if isinstance(o, SBool):
            return SBool(self.t == o.t)
        if isinstance(o, bool):
            return self if o else SBool(z3.Not(self.t))
        if o is None:
            return False
        return SInt.of_bool(self) == o

    def __ne__(self, o):
        return s_not(self.__eq__(o))

    __hash__ = None

    def __index__(self):
        return int(bool(self))

    __int__ = __index__

    def __lshift__(self, o):
        return SInt.of_bool(self) << o

    def __rlshift__(self, o):
        return o << SInt.of_bool(self)

    def __rshift__(self, o):
        return SInt.of_bool(self) >> o

    def __add__(self, o):
        return SInt.of_bool(self) + o

    __radd__ = __add__

    def __mul__(self, o):
        return SInt.of_bool(self) * o

    __rmul__ = __mul__

    def __rsub__(self, o):
        return o - SInt.of_bool(self)

    def __sub__(self, o):
        return SInt.of_bool(self) - o

    def __neg__(self):
        return -SInt.of_bool(self)

    def __lt__(self, o):
        return SInt.of_bool(self) < o

    def __le__(self, o):
        return SInt.of_bool(self) <= o

    def __gt__(self, o):
        return SInt.of_bool(self) > o

    def __ge__(self, o):
        return SInt.of_bool(self) >= o

    def __repr__(self):
        return "SBool(%s)" % z3.simplify(self.t)

    def __format__(self, spec):
        return "<symbool>"


def s_not(x):
    if isinstance(x, SBool):
        return SBool(z3.Not(x.t))
    if isinstance(x, SInt):
        return x == 0
    return not x


def _as_cond(x):
    """-> True / False / z3 Bool term, never forks"""
    if isinstance(x, SBool):
        return x.t
    if isinstance(x, SInt):
        if x.lo > 0 or x.hi < 0:
            return True
        if x.lo == 0 and x.hi == 0:
            return False
        return x.t != 0
    return bool(x)


def s_and(*xs):
    terms = []
    for x in xs:
        c = _as_cond(x)
        if c is False:
            return False
        if c is not True:
            terms.append(c)
    if not terms:
        return True
    return SBool(z3.And(*terms)) if len(terms) > 1 else SBool(terms[0])


def s_or(*xs):
    terms = []
    for x in xs:
        c = _as_cond(x)
        if c is True:
            return True
        if c is not False:
            terms.append(c)
    if not terms:
        return False
    return SBool(z3.Or(*terms)) if len(terms) > 1 else SBool(terms[0])


def s_implies(a, b):
    return s_or(s_not(s_truth(a)), b)


def s_truth(x):
    """bool(x) without forking"""
    c = _as_cond(x)
    return c if isinstance(c, bool) else SBool(c)


def s_ite(c, a, b):
    """if-then-else over ints / bools without forking"""
    cc = _as_cond(c)
    if cc is True:
        return a
    if cc is False:
        return b
    if isinstance(a, (SBool, bool)) and isinstance(b, (SBool, bool)):
        ta = a.t if isinstance(a, SBool) else z3.BoolVal(a)
        tb = b.t if isinstance(b, SBool) else z3.BoolVal(b)
        return SBool(z3.If(cc, ta, tb))
    la, lb = SInt.lift(a), SInt.lift(b)
    if la is None or lb is None:
        raise EngineLimit("s_ite over non-integers: %r %r" % (type(a), type(b)))
    return SInt(z3.If(cc, la[0], lb[0]), min(la[1], lb[1]), max(la[2], lb[2]))


# ------------------------------------------------------------------------------- integers
class SInt:
    __slots__ = ("t", "lo", "hi")

    def __init__(self, t, lo, hi):
        self.t = t
        self.lo, self.hi = _chk(lo, hi)

    @staticmethod
    def of_bool(b):
        return SInt(z3.If(b.t, _bv(1), _bv(0)), 0, 1)

    @staticmethod
    def lift(o):
        """-> (term, lo, hi) or None"""
        if isinstance(o, SInt):
            return o.t, o.lo, o.hi
        if isinstance(o, bool):
            return _bv(int(o)), int(o), int(o)
        if isinstance(o, int):
            _chk(o, o)
            return _bv(o), o, o
        if isinstance(o, SBool):
            s = SInt.of_bool(o)
            return s.t, 0, 1
        return None

    # ---- arithmetic
    def _bin(self, o, fn, ifn, swap=False):
        l = SInt.lift(o)
        if l is None:
            return NotImplemented
        a = (self.t, self.lo, self.hi)
        b = l
        if swap:
            a, b = b, a
        lo, hi = ifn(a[1], a[2], b[1], b[2])
        return SInt(fn(a[0], b[0]), lo, hi)

    def __add__(self, o):
        return self._bin(o, lambda a, b: a + b, lambda al, ah, bl, bh: (al + bl, ah + bh))

    __radd__ = __add__

    def __sub__(self, o):
        return self._bin(o, lambda a, b: a - b, lambda al, ah, bl, bh: (al - bh, ah - bl))

    def __rsub__(self, o):
        return self._bin(o, lambda a, b: a - b, lambda al, ah, bl, bh: (al - bh, ah - bl), True)

    @staticmethod
    def _imul(al, ah, bl, bh):
        c = (al * bl, al * bh, ah * bl, ah * bh)
        return min(c), max(c)

    def __mul__(self, o):
        if isinstance(o, (bytes, bytearray, str, list, tuple)) or isinstance(o, SBytesBase):
            return o * self.__index__()
        if isinstance(o, float):
            return SReal(self, Fraction(o).limit_denominator(10 ** 12))
        return self._bin(o, lambda a, b: a * b, SInt._imul)

    __rmul__ = __mul__

    def __neg__(self):
        return SInt(-self.t, -self.hi, -self.lo)

    def __pos__(self):
        return self

    def __abs__(self):
        if self.lo >= 0:
            return self
        return SInt(z3.If(self.t < 0, -self.t, self.t), 0, max(abs(self.lo), abs(self.hi)))

    def __invert__(self):
        return SInt(~self.t, -self.hi - 1, -self.lo - 1)

    # ---- bit ops
    @staticmethod
    def _iand(al, ah, bl, bh):
        if al >= 0 and bl >= 0:
            return 0, min(ah, bh)
        if al >= 0:
            return 0, ah
        if bl >= 0:
            return 0, bh
        m = _bitmax(al, ah, bl, bh)
        return -m - 1, m

    @staticmethod
    def _ior(al, ah, bl, bh):
        m = _bitmax(al, ah, bl, bh)
        if al >= 0 and bl >= 0:
            return max(al, bl), m
        return -m - 1, m

    @staticmethod
    def _ixor(al, ah, bl, bh):
        m = _bitmax(al, ah, bl, bh)
        if al >= 0 and bl >= 0:
            return 0, m
        return -m - 1, m

    def __and__(self, o):
        return self._bin(o, lambda a, b: a & b, SInt._iand)

    __rand__ = __and__

    def __or__(self, o):
        return self._bin(o, lambda a, b: a | b, SInt._ior)

    __ror__ = __or__

    def __xor__(self, o):
        return self._bin(o, lambda a, b: a ^ b, SInt._ixor)

    __rxor__ = __xor__

    def _shift(self, o, left, swap=False):
        l = SInt.lift(o)
        if l is None:
            return NotImplemented
        a = (self.t, self.lo, self.hi)
        b = l
        if swap:
            a, b = b, a
        if b[1] < 0:
            if ENGINE.branch(b[0] < 0):
                raise ValueError("negative shift count")
            b = (b[0], 0, b[2])
        if b[2] > W - 2:
            raise EngineLimit("shift count up to %d" % b[2])
        if left:
            lo, hi = min(a[1] << b[1], a[1] << b[2]), max(a[2] << b[1], a[2] << b[2])
            return SInt(a[0] << b[0], lo, hi)
        lo, hi = min(a[1] >> b[1], a[1] >> b[2]), max(a[2] >> b[1], a[2] >> b[2])
        return SInt(a[0] >> b[0], lo, hi)  # arithmetic shift == floor semantics

    def __lshift__(self, o):
        return self._shift(o, True)

    def __rlshift__(self, o):
        return self._shift(o, True, True)

    def __rshift__(self, o):
        return self._shift(o, False)

    def __rrshift__(self, o):
        return self._shift(o, False, True)

    # ---- division (Python floor semantics)
    def _divmod(self, o, swap=False):
        l = SInt.lift(o)
        if l is None:
            return None
        a = (self.t, self.lo, self.hi)
        b = l
        if swap:
            a, b = b, a
        if b[1] <= 0 <= b[2]:
            if ENGINE.branch(b[0] == 0):
                raise ZeroDivisionError("integer division or modulo by zero")
        if b[1] == b[2] and b[1] > 0 and ENGINE.active:
            return _const_divmod(a, b[1])
        q = a[0] / b[0]  # signed truncating
        r = z3.SRem(a[0], b[0])
        adj = z3.And(r != 0, (r < 0) != (b[0] < 0))
        qf = z3.If(adj, q - 1, q)
        rf = z3.If(adj, r + b[0], r)
        m = max(abs(a[1]), abs(a[2]))
        bm = max(abs(b[1]), abs(b[2]))
        if b[1] > 0:
            qi = (min(a[1] // b[1], a[1] // b[2]), max(a[2] // b[1], a[2] // b[2]))
            ri = (0, b[2] - 1)
        else:
            qi = (-m - 1, m + 1)
            ri = (-bm, bm)
        return SInt(qf, *qi), SInt(rf, *ri)

    def __floordiv__(self, o):
        r = self._divmod(o)
        return NotImplemented if r is None else r[0]

    def __rfloordiv__(self, o):
        r = self._divmod(o, True)
        return NotImplemented if r is None else r[0]

    def __mod__(self, o):
        r = self._divmod(o)
        return NotImplemented if r is None else r[1]

    def __rmod__(self, o):
        if isinstance(o, str):  # "%02X" % x
            return o % self.__index__()
        r = self._divmod(o, True)
        return NotImplemented if r is None else r[1]

    def __divmod__(self, o):
        return self._divmod(o)

    def __truediv__(self, o):
        if isinstance(o, int) and not isinstance(o, bool) and o != 0:
            return SReal(self, Fraction(1, o))
        raise EngineLimit("true division by a non-constant")

    # ---- comparisons
    def _cmp(self, o, fn, cfn):
        l = SInt.lift(o)
        if l is None:
            return NotImplemented
        r = cfn(self.lo, self.hi, l[1], l[2])
        if r is not None:
            return r
        return SBool(fn(self.t, l[0]))

    def __eq__(self, o):
        if o is None:
            return False
        if isinstance(o, SInt) and self.t.eq(o.t):
            return True  # the very same term (hash-consed): no query, no simplification
        r = self._cmp(o, lambda a, b: a == b,
                      lambda al, ah, bl, bh: False if (ah < bl or bh < al) else (
                          True if al == ah == bl == bh else None))
        return False if r is NotImplemented else r

    def __ne__(self, o):
        return s_not(self.__eq__(o))

    def __lt__(self, o):
        return self._cmp(o, lambda a, b: a < b,
                         lambda al, ah, bl, bh: True if ah < bl else (False if al >= bh else None))

    def __le__(self, o):
        return self._cmp(o, lambda a, b: a <= b,
                         lambda al, ah, bl, bh: True if ah <= bl else (False if al > bh else None))

    def __gt__(self, o):
        return self._cmp(o, lambda a, b: a > b,
                         lambda al, ah, bl, bh: True if al > bh else (False if ah <= bl else None))

    def __ge__(self, o):
        return self._cmp(o, lambda a, b: a >= b,
                         lambda al, ah, bl, bh: True if al >= bh else (False if ah < bl else None))

    def __hash__(self):
        # hashing (dict / set keys inside the code under test) pins the value: one path per value
        return hash(self.__index__())

    def __bool__(self):
        if self.lo > 0 or self.hi < 0:
            return True
        if self.lo == 0 and self.hi == 0:
            return False
        return ENGINE.branch(self.t != 0)

    def __index__(self):
        return ENGINE.concretize(self)

    __int__ = __index__

    def __float__(self):
        return float(ENGINE.concretize(self))

    def __repr__(self):
        return "SInt(%s)[%d..%d]" % (z3.simplify(self.t), self.lo, self.hi)

    def __format__(self, spec):
        return "<sym>"

    def bit_length(self):
        return self.__index__().bit_length()

    def to_bytes(self, n, order="big", signed=False):
        if signed:
            raise EngineLimit("signed to_bytes")
        if self.lo < 0 or self.hi >= (1 << (8 * n)):
            if ENGINE.branch(z3.Or(self.t < 0, self.t >= (1 << (8 * n)))):
                raise OverflowError("int too big to convert")
        out = [(self >> (8 * i)) & 0xFF for i in range(n)]
        if order == "big":
            out.reverse()
        return SBytes(out)


def _const_divmod(a, d):
    """floor division of (term, lo, hi) by the positive constant d through fresh quotient and
    remainder variables with their defining constraints (a multiplication by a constant is far
    cheaper to bit-blast than a 64-bit divider); the constraints are total, so adding them to
    the path condition excludes nothing."""
    t, lo, hi = a
    if d & (d - 1) == 0:  # power of two: shifts and masks
        k = d.bit_length() - 1
        return SInt(t >> k, lo >> k, hi >> k), SInt(t & (d - 1), 0, d - 1)
    ENGINE._fresh += 1
    q = z3.BitVec("_q%d" % ENGINE._fresh, W)
    r = z3.BitVec("_r%d" % ENGINE._fresh, W)
    qlo, qhi = lo // d, hi // d
    ENGINE.solver.add(q >= qlo, q <= qhi, r >= 0, r < d, t == q * d + r)
    ENGINE.model = None
    return SInt(q, qlo, qhi), SInt(r, 0, d - 1)


class SReal:
    """exact value num * frac (frac a concrete Fraction); only good for int() truncation of
    pure quotients, for virtual-time arithmetic and for comparison by the harness."""

    def __init__(self, num, frac):
        self.num, self.frac = num, Fraction(frac)

    def trunc(self):
        n, f = self.num, self.frac
        if f.numerator != 1 and f.numerator != -1:
            raise EngineLimit("int() of a product with a non-unit fraction")
        d = f.denominator * f.numerator
        if d < 0:
            n, d = -n, -d
        m = max(abs(n.lo), abs(n.hi))
        if m >= 1 << 52:
            raise EngineLimit("float division beyond the exactly representable range")
        if n.lo >= 0 and ENGINE.active:
            return _const_divmod((n.t, n.lo, n.hi), d)[0]
        q = n.t / _bv(d)  # signed truncating division == int(n / d) for |n| < 2**52
        return SInt(q, -(m // d) - 1, m // d + 1)

    def __round__(self, ndigits=None):
        """round(): to the nearest integer, ties to the even one (CPython's float rounding; exact below 2**52)"""
        if ndigits is not None:
            raise EngineLimit("round() with digits")
        n, f = self.num, self.frac
        if abs(f.numerator) != 1:
            raise EngineLimit("round() of a product with a non-unit fraction")
        d = f.denominator * f.numerator
        if d < 0:
            n, d = -n, -d
        if max(abs(n.lo), abs(n.hi)) >= 1 << 52:
            raise EngineLimit("float division beyond the exactly representable range")
        q, r = n // d, n % d  # floor quotient, remainder in [0, d)
        return s_ite(r * 2 > d, q + 1, s_ite(r * 2 == d, q + (q & 1), q))

    def __mul__(self, o):
        if isinstance(o, (int, float)) and not isinstance(o, bool):
            return SReal(self.num, self.frac * Fraction(o).limit_denominator(10 ** 12))
        return NotImplemented

    __rmul__ = __mul__

    def __truediv__(self, o):
        if isinstance(o, int) and o:
            return SReal(self.num, self.frac / o)
        return NotImplemented

    def scaled_int(self, mult):
        """floor-free exact num*frac*mult when that is an integer multiple (virtual time)"""
        f = self.frac * mult
        if f.denominator == 1:
            return self.num * int(f.numerator)
        return (self.num * int(f.numerator)) // int(f.denominator)

    def __repr__(self):
        return "SReal(%r * %s)" % (self.num, self.frac)


# --------------------------------------------------------------------------- byte strings
class SBytesBase:
    """concrete-length sequence of (int | SInt) in 0..255"""

    mutable = False

    def __init__(self, items=()):
        self.v = list(items)

    @classmethod
    def _mk(cls, items):
        return cls(items)

    def __len__(self):
        return len(self.v)

    def __bool__(self):
        return bool(self.v)

    def __iter__(self):
        return iter(list(self.v))

    @staticmethod
    def _slice(i):
        return slice(*[None if x is None else x.__index__() for x in (i.start, i.stop, i.step)])

    def __getitem__(self, i):
        if isinstance(i, slice):
            return self._mk(self.v[self._slice(i)])
        if isinstance(i, (SInt, SBool)):
            if isinstance(i, SBool):
                i = SInt.of_bool(i)
            n = len(self.v)
            if i.lo < -n or i.hi >= n:
                if ENGINE.branch(z3.Or(i.t < -n, i.t >= n)):
                    raise IndexError("index out of range")
            if n == 0:
                raise IndexError("index out of range")
            if n > 160:
                return self.v[i.__index__()]
            if i.lo < 0:
                i = SInt(z3.If(i.t < 0, i.t + n, i.t), 0, n - 1)
            lifted = [SInt.lift(x) for x in self.v]
            lo_k, hi_k = max(0, i.lo), min(n - 1, i.hi)
            t = lifted[hi_k][0]
            for k in range(hi_k - 1, lo_k - 1, -1):
                t = z3.If(i.t == k, lifted[k][0], t)
            sel = lifted[lo_k:hi_k + 1]
            return SInt(t, min(l[1] for l in sel), max(l[2] for l in sel))
        return self.v[i.__index__()]

    def _coerce(self, o):
        if isinstance(o, SBytesBase):
            return o.v
        if isinstance(o, (bytes, bytearray)):
            return list(o)
        return None

    def __add__(self, o):
        c = self._coerce(o)
        if c is None:
            return NotImplemented
        return self._mk(self.v + c)

    def __radd__(self, o):
        c = self._coerce(o)
        if c is None:
            return NotImplemented
        cls = SByteArray if isinstance(o, bytearray) else SBytes
        return cls(c + self.v)

    def __mul__(self, n):
        return self._mk(self.v * n.__index__())

    __rmul__ = __mul__

    def __eq__(self, o):
        c = self._coerce(o)
        if c is None or len(c) != len(self.v):
            return False
        terms = []
        for a, b in zip(self.v, c):
            e = (a == b)
            if e is False:
                return False
            if e is not True:
                terms.append(e.t)
        if not terms:
            return True
        return SBool(z3.And(*terms)) if len(terms) > 1 else SBool(terms[0])

    def __ne__(self, o):
        return s_not(self.__eq__(o))

    __hash__ = None

    def __contains__(self, x):
        if isinstance(x, (bytes, bytearray, SBytesBase)):  # subsequence test, as for bytes
            xs = list(x.v) if isinstance(x, SBytesBase) else list(x)
            n, m = len(self.v), len(xs)
            if m == 0:
                return True
            if m > n:
                return False
            return bool(s_or(*[s_and(*[self.v[o + j] == xs[j] for j in range(m)]) for o in range(n - m + 1)]))
        return bool(s_or(*[e == x for e in self.v]))

    def concrete(self):
        return bytes(x.__index__() for x in self.v)

    def decode(self, *a, **k):
        from .sstr import decode_sbytes
        return decode_sbytes(self, *a, **k)

    def startswith(self, p):
        p = self._coerce(p)
        return len(p) <= len(self.v) and bool(self._mk(self.v[:len(p)]) == bytes(p))

    def hex(self):
        return self.concrete().hex()

    def __repr__(self):
        return "%s(%r)" % (type(self).__name__, self.v)


class SBytes(SBytesBase):
    pass


def _byte_ok(x):
    if isinstance(x, SInt):
        if x.lo < 0 or x.hi > 255:
            if ENGINE.branch(z3.Or(x.t < 0, x.t > 255)):
                raise ValueError("byte must be in range(0, 256)")
            return SInt(x.t, max(x.lo, 0), min(x.hi, 255))
        return x
    if isinstance(x, SBool):
        return SInt.of_bool(x)
    x = x.__index__()
    if not 0 <= x <= 255:
        raise ValueError("byte must be in range(0, 256)")
    return x


class SByteArray(SBytesBase):
    mutable = True

    def __setitem__(self, i, val):
        if isinstance(i, slice):
            i = self._slice(i)
            c = self._coerce(val)
            if c is None:
                c = [_byte_ok(x) for x in val]
            self.v[i] = c
        else:
            self.v[i.__index__()] = _byte_ok(val)

    def __iadd__(self, o):
        c = self._coerce(o)
        if c is None:
            return NotImplemented
        self.v.extend(c)  # in place, like bytearray
        return self

    def __delitem__(self, i):
        del self.v[i]

    def append(self, x):
        self.v.append(_byte_ok(x))

    def extend(self, o):
        c = self._coerce(o)
        self.v.extend(c if c is not None else [_byte_ok(x) for x in o])


def blist(b):
    """bytes-like -> list of ints/SInts, mode agnostic"""
    return list(b.v) if isinstance(b, SBytesBase) else list(b)


def bytes_eq(a, b):
    """element-wise equality of two byte sequences (lists, bytes, proxies) -> bool|SBool"""
    a, b = blist(a), blist(b)
    if len(a) != len(b):
        return False
    return s_and(*[x == y for x, y in zip(a, b)])


# -------------------------------------------------------------------- builtin shadow types
class _Meta(type):
    def __instancecheck__(cls, obj):
        return isinstance(obj, cls._real) or isinstance(obj, cls._sym)


class P_int(metaclass=_Meta):
    _real, _sym = int, (SInt,)

    def __new__(cls, x=0, *a):
        if isinstance(x, SInt):
            return x
        if isinstance(x, SBool):
            return SInt.of_bool(x)
        if isinstance(x, SReal):
            return x.trunc()
        from .sstr import SStr
        if isinstance(x, SStr):
            return int(x.concrete(), *a)
        return int(x, *a)

    from_bytes = int.from_bytes


class P_bool(metaclass=_Meta):
    """bool(x) that merges instead of forking"""
    _real, _sym = bool, (SBool,)

    def __new__(cls, x=False):
        if isinstance(x, (SBool, SInt)):
            return s_truth(x)
        return bool(x)


class P_bytes(metaclass=_Meta):
    _real, _sym = bytes, (SBytes,)

    def __new__(cls, x=b"", *a):
        if isinstance(x, SBytesBase):
            return SBytes(x.v)
        if isinstance(x, SInt):
            return bytes(x.__index__())
        if isinstance(x, (list, tuple)) and any(isinstance(e, (SInt, SBool)) for e in x):
            return SBytes([_byte_ok(e) for e in x])
        return bytes(x, *a)


class P_bytearray(metaclass=_Meta):
    _real, _sym = bytearray, (SByteArray,)

    def __new__(cls, x=b"", *a):
        # always a symbolic-capable bytearray so that later stores of SInt work
        if isinstance(x, SBytesBase):
            return SByteArray(x.v)
        if isinstance(x, SInt):
            x = x.__index__()
        if isinstance(x, int):
            return SByteArray([0] * x)
        if isinstance(x, (bytes, bytearray)):
            return SByteArray(list(x))
        return SByteArray([_byte_ok(e) for e in x])


def p_memoryview(x):
    """memoryview(proxy) -> the proxy itself (slicing / indexing / iteration behave alike for the uses in scope)"""
    if isinstance(x, SBytesBase):
        return x
    return memoryview(x)


def p_min(*args):
    if len(args) == 1:
        args = tuple(args[0])
    if not any(isinstance(a, (SInt, SBool)) for a in args):
        return min(*args)
    r = args[0]
    for a in args[1:]:
        c = a < r
        r = s_ite(c, a, r)
    return r


def p_max(*args):
    if len(args) == 1:
        args = tuple(args[0])
    if not any(isinstance(a, (SInt, SBool)) for a in args):
        return max(*args)
    r = args[0]
    for a in args[1:]:
        c = a > r
        r = s_ite(c, a, r)
    return r


def p_ord(c):
    from .sstr import SStr
    if isinstance(c, SStr):
        if len(c) != 1:
            raise TypeError("ord() expected a character, but string of length %d found" % len(c))
        return c.v[0]
    return ord(c)


# --------------------------------------------------------------------------------- engine
class Engine:
    """depth-first path exploration with decision-prefix replay.

    A decision is either a bool (branch) or ("eq", v) / ("ne", (v1, v2, ...)) for a
    concretisation, so that replaying a prefix never depends on which model z3 returns.
    """

    SHARD_DEPTH = 6

    def __init__(self):
        self.active = False
        self.shard = None  # (i, n): explore only the subtrees whose first SHARD_DEPTH decisions hash to i mod n
        self.reset_stats()

    def _shard_gate(self):
        """work sharing between processes: every shard replays the tree down to SHARD_DEPTH
        decisions and descends only into its own subtrees (the shards partition the paths)"""
        if self.shard and self.n_forks == self.SHARD_DEPTH and not self.gated:
            import zlib
            self.gated = True
            i, n = self.shard
            if zlib.crc32(repr(self.trace).encode()) % n != i:
                self.not_mine = True
                raise PathAbort("subtree of another shard")

    def reset_stats(self):
        self.n_paths = 0
        self.n_queries = 0
        self.n_decisions = 0
        self.solver_s = 0.0
        self.n_concretize = 0
        self.n_checks = 0
        self.labels = {}
        self.sites = {}
        self.cross = []
        self.crosscheck = False

    # -- per path
    def begin(self, prefix, work):
        self.prefix = prefix
        self.work = work
        self.pos = 0
        self.trace = []
        self.solver = z3.Solver()
        self.solver.set("timeout", int(_os.environ.get("VSYM_QUERY_TIMEOUT_MS", "120000")))
        self.inputs = {}
        self.input_meta = {}
        self.active = True
        self._fresh = 0
        self.model = None  # a model known to satisfy everything asserted so far (or None)
        self.not_mine = False
        self.n_forks = 0  # decisions on this path at which both sides were feasible
        self.gated = False
        self.pending = []  # deferred checks: (z3 cond, label, detail)

    def end(self):
        self.active = False

    def _sat(self, *extra):
        t0 = _time.time()
        self.n_queries += 1
        r = self.solver.check(*extra)
        self.solver_s += _time.time() - t0
        if r == z3.unknown:
            raise EngineLimit("solver answered unknown: %s" % self.solver.reason_unknown())
        return r == z3.sat

    def _model_says(self, cond):
        """truth value of cond under the cached model, or None without a usable model"""
        if self.model is None:
            return None
        v = self.model.eval(cond, model_completion=True)
        if z3.is_true(v):
            return True
        if z3.is_false(v):
            return False
        return None

    def _site(self, kind):
        import sys
        f = sys._getframe(2)
        while f is not None and f.f_code.co_filename.endswith(("vsym/core.py", "vsym/sstr.py", "vsym/symcoll.py")):
            f = f.f_back
        key = "%s %s:%d" % (kind, f.f_code.co_filename, f.f_lineno) if f else kind
        self.sites[key] = self.sites.get(key, 0) + 1

    def branch(self, cond):
        if not self.active:
            raise EngineLimit("symbolic truth test outside an exploration")
        cond = z3.simplify(cond)
        if z3.is_true(cond):
            return True
        if z3.is_false(cond):
            return False
        forked = False
        if self.pos < len(self.prefix):
            d = self.prefix[self.pos]
            if not (isinstance(d, tuple) and isinstance(d[0], bool)):
                raise EngineLimit("non-deterministic replay (branch vs concretize)")
            d, forked = d
        else:
            known = self._model_says(cond)
            if known is True:
                can_t = True
                can_f = self._sat(z3.Not(cond))
            elif known is False:
                can_f = True
                can_t = self._sat(cond)
            else:
                can_t = self._sat(cond)
                if can_t:
                    self.model = self.solver.model()
                    can_f = self._sat(z3.Not(cond))
                else:
                    can_f = self._sat(z3.Not(cond))
                    if can_f:
                        self.model = self.solver.model()
            if can_t and can_f:
                self.work.append(self.trace + [(False, True)])
                d = True
                forked = True
                if PROFILE_SITES:
                    self._site("branch")
            elif can_t:
                d = True
            elif can_f:
                d = False
            else:
                raise PathAbort()
        self.pos += 1
        self.n_decisions += 1
        self.n_forks += forked
        self.trace.append((d, forked))
        self.solver.add(cond if d else z3.Not(cond))
        if self.model is not None and self._model_says(cond) is not d:
            self.model = None
        self._shard_gate()
        return d

    def concretize(self, x):
        if not self.active:
            raise EngineLimit("concretisation outside an exploration")
        self.n_concretize += 1
        t = z3.simplify(x.t)
        if z3.is_bv_value(t):
            return t.as_signed_long()
        if self.pos < len(self.prefix):
            d = self.prefix[self.pos]
            if isinstance(d[0], bool):
                raise EngineLimit("non-deterministic replay (concretize vs branch)")
            if d[0] == "eq":
                v = d[1]
                self.solver.add(x.t == v)
            else:
                excl = d[1]
                for e in excl:
                    self.solver.add(x.t != e)
                if not self._sat():
                    raise PathAbort()
                v = self.solver.model().eval(x.t, model_completion=True).as_signed_long()
                if len(excl) > 4200:
                    raise EngineLimit("concretize fan-out > 4200")
                self.work.append(self.trace + [("ne", excl + (v,))])
                self.solver.add(x.t == v)
        else:
            if not self._sat():
                raise PathAbort()
            v = self.solver.model().eval(x.t, model_completion=True).as_signed_long()
            self.work.append(self.trace + [("ne", (v,))])
            self.solver.add(x.t == v)
            if PROFILE_SITES:
                self._site("concretize")
        self.pos += 1
        self.n_decisions += 1
        self.n_forks += 1
        self.trace.append(("eq", v))
        if self.model is not None and self._model_says(x.t == v) is not True:
            self.model = None
        self._shard_gate()
        return v

    def assume(self, c):
        c = _as_cond(c)
        if c is True:
            return
        self.flush()  # assumptions are not retroactive: decide the earlier checks first
        if c is False:
            raise PathAbort()
        self.solver.add(c)
        self.model = None
        if not self._sat():
            raise PathAbort()
        self.model = self.solver.model()

    def check(self, c, label, detail=None):
        """clause c must hold for every input on this path.  Undecided clauses are deferred
        and decided together by one query (flush) at the next assumption / at the end of the
        path / when an exception leaves the harness: the later branch decisions partition
        the inputs of this point among the continuations, every continuation flushes, so
        nothing is lost, and ~5x fewer queries are needed."""
        self.n_checks += 1
        self.labels[label] = self.labels.get(label, 0) + 1
        c = _as_cond(c)
        if c is True:
            return
        if c is False:
            self.flush()
            if self._sat():
                raise ViolationFound(label, self.solver.model(), detail)
            raise PathAbort()
        self.pending.append((c, label, detail))
        if len(self.pending) >= 64:
            self.flush()

    def _external(self, neg):
        """closed lemmas: the same query (SMT-LIB2 dump of the path condition and the negated clauses) is handed to
        /usr/bin/z3 (4.8.12) and cvc5; an answer of `sat` while z3 5.1 says `unsat` is a disagreement, any `(error` is
        inconclusive; time-outs are recorded"""
        import subprocess
        import tempfile
        s2 = z3.Solver()
        s2.add(self.solver.assertions())
        s2.add(neg)
        text = "(set-logic QF_BV)\n" + s2.to_smt2()
        out = {}
        with tempfile.NamedTemporaryFile("w", suffix=".smt2", delete=True) as f:
            f.write(text)
            f.flush()
            for name, cmd in (("z3-4.8.12", ["/usr/bin/z3", "-smt2", "-T:90", f.name]),
                              ("cvc5-1.0", ["cvc5", "--tlimit=90000", f.name])):
                try:
                    r = subprocess.run(cmd, capture_output=True, text=True, timeout=120)
                    txt = (r.stdout + r.stderr).strip()
                    first = txt.splitlines()[0].strip() if txt else "no output"
                    if "(error" in txt:
                        first = "error: " + txt[:120]
                    elif first not in ("sat", "unsat", "unknown"):
                        first = "timeout" if "timeout" in txt.lower() or "interrupted" in txt.lower() else first[:60]
                except subprocess.TimeoutExpired:
                    first = "timeout"
                except OSError as e:
                    first = "unavailable: %s" % e
                out[name] = first
        self.cross.append(out)
        return out

    def flush(self):
        if not self.pending:
            return
        pend, self.pending = self.pending, []
        neg = z3.Or(*[z3.Not(c) for c, _l, _d in pend]) if len(pend) > 1 else z3.Not(pend[0][0])
        if self.crosscheck:
            ext = self._external(neg)
            if not self._sat(neg):
                for name, ans in ext.items():
                    if ans == "sat":
                        raise EngineLimit("solver disagreement: z3 5.1 says unsat, %s says sat" % name)
                    if ans.startswith("error"):
                        raise EngineLimit("external solver %s: %s" % (name, ans))
                return
        if self._sat(neg):
            m = self.solver.model()
            for c, label, detail in pend:
                if not z3.is_true(m.eval(c, model_completion=True)):
                    raise ViolationFound(label, m, detail)
            raise EngineLimit("flush: model does not falsify any pending clause")

    def sym_int(self, name, lo, hi):
        if name in self.inputs:
            raise EngineLimit("duplicate input name %s" % name)
        t = z3.BitVec(name, W)
        self.solver.add(t >= lo, t <= hi)
        if not lo <= 0 <= hi:
            self.model = None  # model completion would pick 0
        self.inputs[name] = t
        return SInt(t, lo, hi)

    def sym_bool(self, name):
        if name in self.inputs:
            raise EngineLimit("duplicate input name %s" % name)
        t = z3.Bool(name)
        self.inputs[name] = t
        return SBool(t)

    def model_values(self, model):
        out = {}
        for k, t in self.inputs.items():
            v = model.eval(t, model_completion=True)
            out[k] = z3.is_true(v) if z3.is_bool(t) else v.as_signed_long()
        return out

    def path_model(self):
        """a model of the current path condition (or None)"""
        if self.model is not None:
            return self.model
        if not self._sat():
            return None
        self.model = self.solver.model()
        return self.model


    def coincidence_model(self):
        """a second model of the current path condition in which all byte-string inputs (names like `addr[3]`) carry one
        common value, if the path allows it: equal / prefix / substring coincidences that a default model rarely hits"""
        byte_inputs = [t for k, t in self.inputs.items() if k.endswith("]") and not z3.is_bool(t)]
        if len(byte_inputs) < 2:
            return None
        try:
            if not self._sat(z3.And(*[t == byte_inputs[0] for t in byte_inputs[1:]])):
                return None
        except EngineLimit:
            return None
        return self.solver.model()


ENGINE = Engine()
