"""vsym.ifconv - source-level if-conversion (state merging) of pure scalar branches.

Regenerated from the *current* source of the module on every run: the module's source is
parsed, every `if` whose test is a pure scalar expression and whose arms only assign pure
expressions to already-bound local names is rewritten into "evaluate both arms, ite the
assigned names" (guarded so that a concrete condition still takes the ordinary branch).
Only the functions that contain such a site are recompiled; `install()` swaps them into
the module, `uninstall()` restores the originals (concrete replays run the originals).
"""
import ast
import copy
import inspect

import z3

from .core import SInt, SBool, _as_cond

PURE_BIN = (ast.Add, ast.Sub, ast.Mult, ast.BitAnd, ast.BitOr, ast.BitXor, ast.LShift, ast.RShift)


def _pure(e):
    if isinstance(e, (ast.Name, ast.Constant)):
        return True
    if isinstance(e, ast.BinOp) and isinstance(e.op, PURE_BIN):
        if isinstance(e.op, (ast.LShift, ast.RShift)) and not (
                isinstance(e.right, ast.Constant) and isinstance(e.right.value, int)
                and 0 <= e.right.value < 48):
            return False
        return _pure(e.left) and _pure(e.right)
    if isinstance(e, ast.UnaryOp) and isinstance(e.op, (ast.Invert, ast.USub)):
        return _pure(e.operand)
    return False


def _pure_test(e):
    if isinstance(e, ast.Compare) and len(e.ops) == 1 and isinstance(
            e.ops[0], (ast.Eq, ast.NotEq, ast.Lt, ast.LtE, ast.Gt, ast.GtE)):
        return _pure(e.left) and _pure(e.comparators[0])
    return _pure(e)


def _simple_block(stmts):
    """only Name = pure / Name op= pure ; returns the set of assigned names or None"""
    names = set()
    for s in stmts:
        if (isinstance(s, ast.Assign) and len(s.targets) == 1
                and isinstance(s.targets[0], ast.Name) and _pure(s.value)):
            names.add(s.targets[0].id)
        elif (isinstance(s, ast.AugAssign) and isinstance(s.target, ast.Name)
              and isinstance(s.op, PURE_BIN) and _pure(s.value)):
            names.add(s.target.id)
        elif isinstance(s, ast.Pass):
            pass
        else:
            return None
    return names


class IfConv:
    def __init__(self):
        self.count = 0
        self.sites = []

    def convert_function(self, node):
        before = self.count
        bound = {a.arg for a in node.args.args + node.args.kwonlyargs}
        self._convert_block(node.body, bound)
        return self.count > before

    @staticmethod
    def _targets(stmt):
        out = set()
        for n in ast.walk(stmt):
            if isinstance(n, ast.Name) and isinstance(n.ctx, ast.Store):
                out.add(n.id)
        return out

    def _convert_block(self, body, bound):
        bound = set(bound)
        for i, st in enumerate(body):
            if isinstance(st, ast.If) and _pure_test(st.test):
                a = _simple_block(st.body)
                b = _simple_block(st.orelse)
                if a is not None and b is not None and (a | b) and (a | b) <= bound:
                    body[i] = self._merge(st, sorted(a | b))
                    continue
            for fld in ("body", "orelse"):
                sub = getattr(st, fld, None)
                if isinstance(sub, list) and sub and isinstance(sub[0], ast.stmt):
                    inner = bound | (self._targets(st.target) if hasattr(st, "target") else set())
                    self._convert_block(sub, inner)
            bound |= self._targets(st)

    def _merge(self, st, names):
        self.count += 1
        self.sites.append(st.lineno)
        k = self.count
        c, s, t = "_sxc%d" % k, "_sxs%d" % k, "_sxt%d" % k
        tup = "(" + ", ".join(names) + ",)"
        src = (
            "{c} = _vsym_cond(0)\n"
            "if {c} is True or {c} is False:\n"
            "    if {c}:\n        pass\n    else:\n        pass\n"
            "else:\n"
            "    {s} = {tup}\n"
            "    pass\n"
            "    {t} = {tup}\n"
            "    {tup} = {s}\n"
            "    pass\n"
            "    {tup} = _vsym_ite({c}, {t}, {tup})\n"
        ).format(c=c, s=s, t=t, tup=tup)
        new = ast.parse(src).body
        new[0].value.args[0] = st.test
        conc = new[1].body[0]
        conc.body = st.body
        conc.orelse = st.orelse or [ast.Pass()]
        sym = new[1].orelse
        sym[1:2] = copy.deepcopy(st.body)
        idx = 1 + len(st.body) + 2
        sym[idx:idx + 1] = copy.deepcopy(st.orelse) or [ast.Pass()]
        wrapper = ast.If(test=ast.Constant(True), body=new, orelse=[])
        return ast.copy_location(ast.fix_missing_locations(wrapper), st)


def vsym_cond(x):
    c = _as_cond(x)
    if isinstance(c, bool):
        return c
    return SBool(c)  # no simplify: deep terms make it quadratic inside merged loops


def vsym_ite(c, a, b):
    out = []
    for x, y in zip(a, b):
        if x is y:
            out.append(x)
            continue
        lx, ly = SInt.lift(x), SInt.lift(y)
        if lx is None or ly is None:
            raise TypeError("cannot merge non-integers")
        out.append(SInt(z3.If(c.t, lx[0], ly[0]), min(lx[1], ly[1]), max(lx[2], ly[2])))
    return tuple(out)


class ConvertedModule:
    """if-converted twins of the top-level functions of `mod` that contain a site"""

    def __init__(self, mod):
        self.mod = mod
        src = inspect.getsource(mod)
        tree = ast.parse(src, mod.__file__)
        conv = IfConv()
        self.originals, self.converted = {}, {}
        for node in tree.body:
            if isinstance(node, ast.FunctionDef):
                node.decorator_list = []
                if conv.convert_function(node):
                    m = ast.Module(body=[node], type_ignores=[])
                    ast.fix_missing_locations(m)
                    tmp = {}
                    mod.__dict__.setdefault("_vsym_cond", vsym_cond)
                    mod.__dict__.setdefault("_vsym_ite", vsym_ite)
                    exec(compile(m, mod.__file__, "exec"), mod.__dict__, tmp)
                    self.converted[node.name] = tmp[node.name]
                    self.originals[node.name] = mod.__dict__[node.name]
        self.sites = ["%s:%d" % (mod.__file__, ln) for ln in conv.sites]

    def install(self):
        self.mod.__dict__.update(self.converted)

    def uninstall(self):
        self.mod.__dict__.update(self.originals)
