"""vsym.sstr - concrete-length strings with symbolic (ASCII) code points."""
import z3

from .core import SInt, SBool, SBytes, SBytesBase, ENGINE, EngineLimit, s_and, s_not, _Meta


class SStr:
    def __init__(self, cps):
        self.v = list(cps)

    def __len__(self):
        return len(self.v)

    def __bool__(self):
        return bool(self.v)

    def __iter__(self):
        return iter([SStr([c]) for c in self.v])

    def __getitem__(self, i):
        if isinstance(i, slice):
            return SStr(self.v[SBytesBase._slice(i)])
        return SStr([self.v[i.__index__()]])

    def concrete(self):
        return "".join(chr(c.__index__()) for c in self.v)

    def __str__(self):
        return self.concrete()

    def __format__(self, spec):
        return "<symstr>"

    def _cps(self, o):
        if isinstance(o, SStr):
            return o.v
        if isinstance(o, str):
            return [ord(c) for c in o]
        return None

    def __eq__(self, o):
        c = self._cps(o)
        if c is None or len(c) != len(self.v):
            return False
        return s_and(*[a == b for a, b in zip(self.v, c)])

    def __ne__(self, o):
        return s_not(self.__eq__(o))

    __hash__ = None

    def __add__(self, o):
        c = self._cps(o)
        if c is None:
            return NotImplemented
        return SStr(self.v + c)

    def __radd__(self, o):
        c = self._cps(o)
        if c is None:
            return NotImplemented
        return SStr(c + self.v)

    def encode(self, encoding="utf-8", errors="strict"):
        out = []
        for c in self.v:
            if isinstance(c, SInt):
                if c.hi > 127 or c.lo < 0:
                    if ENGINE.branch(z3.Or(c.t > 127, c.t < 0)):
                        # non-ASCII: fall back to the real codec on a concrete value
                        return SBytes(list(self.concrete().encode(encoding, errors)))
                    c = SInt(c.t, max(c.lo, 0), min(c.hi, 127))
                out.append(c)
            else:
                if c > 127:
                    return SBytes(list(self.concrete().encode(encoding, errors)))
                out.append(c)
        return SBytes(out)

    def _match_at(self, pos, pat):
        if pos + len(pat) > len(self.v):
            return False
        return bool(s_and(*[self.v[pos + k] == pat[k] for k in range(len(pat))]))

    def startswith(self, p):
        return self._match_at(0, self._cps(p))

    def endswith(self, p):
        pat = self._cps(p)
        return len(pat) <= len(self.v) and self._match_at(len(self.v) - len(pat), pat)

    def __contains__(self, x):
        pat = self._cps(x)
        if pat is None:
            raise TypeError("'in <string>' requires string as left operand")
        if not pat:
            return True
        for pos in range(len(self.v) - len(pat) + 1):
            if self._match_at(pos, pat):
                return True
        return False

    def find(self, x, start=0):
        pat = self._cps(x)
        for pos in range(start, len(self.v) - len(pat) + 1):
            if self._match_at(pos, pat):
                return pos
        return -1

    def replace(self, old, new, count=-1):
        old, new = self._cps(old), self._cps(new)
        if not old:
            raise EngineLimit("replace with an empty pattern")
        out, i = [], 0
        while i < len(self.v):
            if count != 0 and self._match_at(i, old):
                out.extend(new)
                i += len(old)
                count -= 1
            else:
                out.append(self.v[i])
                i += 1
        return SStr(out)

    def __repr__(self):
        return "SStr(%r)" % (self.v,)


def decode_sbytes(b, encoding="utf-8", errors="strict"):
    """ASCII bytes decode to the same code points.  If some byte may be >= 128 the utf-8 outcome depends on
    the byte pattern: both outcomes are explored - UnicodeDecodeError, or *some* string (approximated by the
    bytes as code points; its content is not to be relied on)."""
    highs = [x.t > 127 for x in b.v if isinstance(x, SInt) and x.hi > 127]
    conc_high = any((not isinstance(x, SInt)) and x > 127 for x in b.v)
    if not highs and not conc_high:
        out = [SInt(x.t, x.lo, min(x.hi, 127)) if isinstance(x, SInt) else x for x in b.v]
        if not any(isinstance(x, SInt) for x in out):
            return bytes(out).decode(encoding, errors)
        return SStr(out)
    if not any(isinstance(x, SInt) for x in b.v):
        return bytes(b.v).decode(encoding, errors)
    if conc_high or ENGINE.branch(z3.Or(*highs) if len(highs) > 1 else highs[0]):
        ENGINE._fresh += 1
        if ENGINE.branch(z3.Bool("_utf8_decodes%d" % ENGINE._fresh)):
            return SStr(list(b.v))
        raise UnicodeDecodeError(encoding, b"", 0, 1, "symbolic non-ASCII bytes (modelled outcome)")
    return SStr([SInt(x.t, x.lo, 127) if isinstance(x, SInt) and x.hi > 127 else x for x in b.v])


class P_str(metaclass=_Meta):
    _real, _sym = str, (SStr,)

    def __new__(cls, x="", *a):
        if isinstance(x, SStr):
            return x
        if isinstance(x, (SInt, SBool)):
            return "<sym>"
        return str(x, *a)


def p_chr(c):
    if isinstance(c, SInt):
        return SStr([c])
    return chr(c)
