"""vsym.ctx - the dual-mode harness context and the installation of shadows / stubs.

Harnesses are written once against this small API.  SymCtx hands out proxies (symbolic
mode, builtins of the repository's modules shadowed); ConcCtx hands out plain Python values
taken from a witness (replay / translation validation: no builtin is shadowed, the code
under test runs exactly as a user would run it).  The environment stubs (virtual clock,
urandom, file system) are installed in both modes.
"""
import importlib
import io
import json as _json

import z3

from . import core, pstruct, sstr, symcoll
from .core import (SInt, SBool, SBytes, SByteArray, SBytesBase, SReal, ENGINE, PathAbort,
                   s_not, _as_cond)

REPO_MODULE_NAMES = [
    "circuitpython_nrf24l01.rf24",
    "circuitpython_nrf24l01.rf24_lite",
    "circuitpython_nrf24l01.fake_ble",
    "circuitpython_nrf24l01.rf24_network",
    "circuitpython_nrf24l01.rf24_mesh",
    "circuitpython_nrf24l01.network.mixins",
    "circuitpython_nrf24l01.network.structs",
    "circuitpython_nrf24l01.wrapper.cpy_spidev",
]

VALUE_SHADOWS = dict(int=core.P_int, bool=core.P_bool, bytes=core.P_bytes,
                     bytearray=core.P_bytearray, min=core.p_min, max=core.p_max,
                     ord=core.p_ord, chr=sstr.p_chr, str=sstr.P_str, set=symcoll.SymSet,
                     memoryview=core.p_memoryview)

_state = {"mods": None, "conv": None, "real_struct": {}, "real_env": {}, "sym_on": False}


def repo_modules():
    if _state["mods"] is None:
        mods = [importlib.import_module(n) for n in REPO_MODULE_NAMES]
        import os
        repo = os.path.realpath(os.environ.get("VERIF_REPO", "/repo")) + "/"
        for m in mods:
            assert os.path.realpath(m.__file__).startswith(repo), (m.__file__, repo)
        _state["mods"] = mods
        from .ifconv import ConvertedModule
        _state["conv"] = [ConvertedModule(m) for m in mods]
        import struct as real_struct
        for m in mods:
            if "struct" in m.__dict__:
                _state["real_struct"][m.__name__] = real_struct
            for k in ("time", "urandom", "open", "json"):
                if k in m.__dict__:
                    _state["real_env"][(m.__name__, k)] = m.__dict__[k]
    return _state["mods"]


def ifconv_sites():
    repo_modules()
    out = []
    for c in _state["conv"]:
        out.extend(c.sites)
    return out


def set_symbolic(on):
    """install / remove the value shadows and the if-converted functions"""
    mods = repo_modules()
    if on == _state["sym_on"]:
        return
    for m in mods:
        for k, v in VALUE_SHADOWS.items():
            if on:
                m.__dict__[k] = v
            else:
                m.__dict__.pop(k, None)
        if m.__name__ in _state["real_struct"]:
            m.__dict__["struct"] = pstruct if on else _state["real_struct"][m.__name__]
    for c in _state["conv"]:
        (c.install if on else c.uninstall)()
    _state["sym_on"] = on


def install_env(clock=None, urandom=None, fs=None):
    """install the environment stubs (both modes); None restores the real thing"""
    for m in repo_modules():
        for k, stub in (("time", clock), ("urandom", urandom)):
            if (m.__name__, k) in _state["real_env"]:
                m.__dict__[k] = stub if stub is not None else _state["real_env"][(m.__name__, k)]
        if (m.__name__, "open") in _state["real_env"] or m.__name__.endswith("rf24_mesh"):
            if fs is not None:
                m.__dict__["open"] = fs.open
                m.__dict__["json"] = fs.json
            else:
                m.__dict__.pop("open", None)
                m.__dict__["json"] = _json


# --------------------------------------------------------------------------- file system
class MemFS:
    """in-memory files + a contract stub of json for int->int tables:
    json.load(file written with json.dumps(d)) == {decimal string of k: v}."""

    def __init__(self, symbolic=True):
        self.files = {}
        # symbolic runs use the contract stub; concrete replays use the real json module on the in-memory file
        self.json = _JsonStub(self) if symbolic else _json

    def open(self, name, mode="r"):
        if "w" in mode:
            f = _MemFile(self, name, [])
            return f
        if name not in self.files:
            raise FileNotFoundError(name)
        return _MemFile(self, name, self.files[name], reading=True)


class _MemFile:
    def __init__(self, fs, name, content, reading=False):
        self.fs, self.name, self.content, self.reading = fs, name, content, reading
        self.table = None

    def __enter__(self):
        return self

    def __exit__(self, *exc):
        if not self.reading:
            self.fs.files[self.name] = self.content
        return False

    def write(self, data):
        if isinstance(data, _JsonText):
            self.content = data
        else:
            self.content = self.content + core.blist(data) if isinstance(self.content, list) \
                else core.blist(data)

    def read(self):
        if isinstance(self.content, _JsonText):
            raise core.EngineLimit("binary read of a JSON stub file")
        if any(isinstance(x, SInt) for x in self.content):
            return SBytes(self.content)
        return bytes(self.content)


class _JsonText:
    def __init__(self, table):
        self.table = table

    def encode(self, encoding="utf-8"):
        return self


class _JsonStub:
    def __init__(self, fs):
        self.fs = fs

    def dumps(self, d, indent=None):
        items = d.items()
        return _JsonText([(k, v) for k, v in items])

    def load(self, f):
        if not isinstance(f.content, _JsonText):
            return _json.loads(bytes(f.content).decode())
        return _StrKeyTable(f.content.table)


class _StrKey:
    """the decimal string of an (int | SInt) key: only int() of it is supported"""

    def __init__(self, k):
        self.k = k

    def __int__(self):
        return int(self.k)


class _StrKeyTable:
    def __init__(self, table):
        self.table = table

    def items(self):
        return [(_StrKey(k), v) for k, v in self.table]


_orig_pint_new = core.P_int.__new__


def _pint_new(cls, x=0, *a):
    if isinstance(x, _StrKey):
        return x.k
    return _orig_pint_new(cls, x, *a)


core.P_int.__new__ = _pint_new


# ------------------------------------------------------------------------------- contexts
class CheckFailed(Exception):
    def __init__(self, label, detail=None):
        super().__init__(label)
        self.label, self.detail = label, detail


class SymCtx:
    symbolic = True

    def __init__(self, eng, open_findings=()):
        self.eng = eng
        self.obs = []
        self.open_findings = set(open_findings)
        self.reach = {}
        self.notes = []

    def int(self, name, lo, hi):
        return self.eng.sym_int(name, lo, hi)

    def bool(self, name):
        return self.eng.sym_bool(name)

    def bit(self, name):
        return self.eng.sym_int(name, 0, 1)

    def bytes(self, name, n, mutable=False):
        cls = SByteArray if mutable else SBytes
        return cls([self.eng.sym_int("%s[%d]" % (name, i), 0, 255) for i in range(n)])

    def str(self, name, n, lo=32, hi=126):
        return sstr.SStr([self.eng.sym_int("%s[%d]" % (name, i), lo, hi) for i in range(n)])

    def choice(self, name, n):
        """a concrete value in range(n): one path per value"""
        return self.eng.sym_int(name, 0, n - 1).__index__()

    def check(self, c, label, detail=None):
        self.eng.check(c, label, detail)

    def assume(self, c):
        self.eng.assume(c)

    def known(self, kf_id, cond):
        """exclude the input class of a *listed* known finding (no effect when the finding is
        not listed as open in known_findings.json)"""
        if kf_id in self.open_findings:
            self.eng.assume(s_not(core.s_truth(cond)))

    def observe(self, name, v):
        self.obs.append((name, v))

    def reached(self, label="end"):
        self.reach[label] = self.reach.get(label, 0) + 1

    def conc(self, x):
        """force a concrete value (forks over the values)"""
        if isinstance(x, (SInt, SBool)):
            return x.__index__()
        return x

    def eval_obs(self, model):
        def ev(v):
            if isinstance(v, SInt):
                return model.eval(v.t, model_completion=True).as_signed_long()
            if isinstance(v, SBool):
                return z3.is_true(model.eval(v.t, model_completion=True))
            if isinstance(v, SBytesBase):
                return [ev(x) for x in v.v]
            if isinstance(v, sstr.SStr):
                return "".join(chr(ev(x)) for x in v.v)
            if isinstance(v, SReal):
                return ["real", ev(v.num), str(v.frac)]
            if isinstance(v, (list, tuple)):
                return [ev(x) for x in v]
            if isinstance(v, dict):
                return {str(k): ev(x) for k, x in v.items()}
            if isinstance(v, (bytes, bytearray)):
                return list(v)
            if isinstance(v, bool) or v is None or isinstance(v, (int, str)):
                return v
            return repr(type(v))
        return [(n, ev(v)) for n, v in self.obs]


class ConcCtx:
    symbolic = False

    def __init__(self, witness, lenient=False):
        self.w = witness
        self.obs = []
        self.failed = []
        self.reach = {}
        self.lenient = lenient
        self.notes = []
        self.open_findings = set()

    def int(self, name, lo, hi):
        v = self.w.get(name, lo)
        if not lo <= v <= hi:
            raise PathAbort("witness value out of range for %s" % name)
        return v

    def bool(self, name):
        return bool(self.w.get(name, False))

    def bit(self, name):
        return int(self.w.get(name, 0))

    def bytes(self, name, n, mutable=False):
        raw = bytes(self.w.get("%s[%d]" % (name, i), 0) for i in range(n))
        return bytearray(raw) if mutable else raw

    def str(self, name, n, lo=32, hi=126):
        return "".join(chr(self.w.get("%s[%d]" % (name, i), lo)) for i in range(n))

    def choice(self, name, n):
        return int(self.w.get(name, 0))

    def check(self, c, label, detail=None):
        if not c:
            self.failed.append(label)
            raise CheckFailed(label, detail)

    def assume(self, c):
        if not c:
            raise PathAbort("assumption fails on the witness")

    def known(self, kf_id, cond):
        pass

    def observe(self, name, v):
        def ev(v):
            if isinstance(v, (bytes, bytearray)):
                return list(v)
            if isinstance(v, (list, tuple)):
                return [ev(x) for x in v]
            if isinstance(v, dict):
                return {str(k): ev(x) for k, x in v.items()}
            if isinstance(v, bool) or v is None or isinstance(v, (int, str)):
                return v
            return repr(type(v))
        self.obs.append((name, ev(v)))

    def reached(self, label="end"):
        self.reach[label] = self.reach.get(label, 0) + 1

    def conc(self, x):
        return x
