"""specs.net_spec - reference model of RF24Network addressing (independent of the code under
test): written from docs/network_docs/topology.rst (logical addresses, levels, the physical
address tables) and TMRh20's RF24Network conventions (pipe 5 = the pipe a parent talks to,
pipe <child digit> of the parent = the pipe a child talks to, pipe 0 = level multicast).
All functions are mode agnostic (int | SInt)."""
from vsym.core import s_and, s_or, s_not, s_ite

DEFAULT_PREFIX = 0xCC
DEFAULT_SUFFIX = (0xC3, 0x3C, 0x33, 0xCE, 0x3E, 0xE3)


def digit(a, k):
    """k-th octal digit, k = 1 is the least significant (the level-1 ancestor)"""
    return (a >> (3 * (k - 1))) & 7


def valid(a):
    """a is one of the 781 node addresses: 0 or 1-4 octal digits each in 1..5"""
    d = [digit(a, k) for k in (1, 2, 3, 4)]
    return s_and(a >= 0, a <= 0o7777, *[x <= 5 for x in d],
                 s_or(d[0] != 0, a == 0), s_or(d[1] != 0, a < 8), s_or(d[2] != 0, a < 64))


def valid_or_multicast(a):
    return s_or(valid(a), a == 0o100, a == 0o10, a == 0o1000)


def level(a):
    return s_ite(a == 0, 0, s_ite(a < 8, 1, s_ite(a < 64, 2, s_ite(a < 512, 3, 4))))


def mask(lvl):
    """low 3*lvl bits"""
    return s_ite(lvl == 0, 0, s_ite(lvl == 1, 7, s_ite(lvl == 2, 0o77, s_ite(lvl == 3, 0o777, 0o7777))))


def parent(a):
    return a & mask(level(a) - 1)


def child_index(a):
    """the digit that distinguishes a among its parent's children (= the parent's pipe it talks to)"""
    l = level(a)
    return s_ite(l == 0, 0, s_ite(l == 1, digit(a, 1), s_ite(l == 2, digit(a, 2), s_ite(l == 3, digit(a, 3), digit(a, 4)))))


def is_descendant(d, x):
    """d lies strictly below x in the tree"""
    return s_and(level(d) > level(x), (d & mask(level(x))) == x)


def child_toward(x, d):
    return d & mask(level(x) + 1)


def next_hop(x, d):
    return s_ite(is_descendant(d, x), child_toward(x, d), parent(x))


def common_ancestor_level(a, b):
    """number of leading (least significant) digits a and b share"""
    same = [s_and(level(a) >= k, level(b) >= k, (a & mask(k)) == (b & mask(k))) for k in (1, 2, 3, 4)]
    return s_ite(same[3], 4, s_ite(same[2], 3, s_ite(same[1], 2, s_ite(same[0], 1, 0))))


def distance(a, b):
    c = common_ancestor_level(a, b)
    return (level(a) - c) + (level(b) - c)


def _sel(suffix, i):
    """suffix[i] for a possibly symbolic i in 0..7 (indices 6, 7 never occur for valid addresses)"""
    r = suffix[5]
    for k in (4, 3, 2, 1, 0):
        r = s_ite(i == k, suffix[k], r)
    return r


def phys(a, pipe, multicast=True, prefix=DEFAULT_PREFIX, suffix=DEFAULT_SUFFIX):
    """5-byte address (LSByte first) node a listens on with data pipe `pipe`"""
    if multicast and isinstance(pipe, int) and pipe == 0:
        return level_addr(level(a), prefix, suffix)
    l = level(a)
    out = [_sel(suffix, pipe)]
    for k in (1, 2, 3, 4):
        out.append(s_ite(l >= k, _sel(suffix, digit(a, k)), prefix))
    return out


def level_addr(lvl, prefix=DEFAULT_PREFIX, suffix=DEFAULT_SUFFIX):
    """address shared by all nodes of a level (pipe 0 with multicast enabled)"""
    return [s_ite(lvl == 0, suffix[0], prefix), s_ite(lvl == 0, prefix, _sel(suffix, lvl)), prefix, prefix, prefix]


def selftest():
    """the tables of docs/network_docs/topology.rst"""
    disp = lambda b: " ".join("%02X" % x for x in reversed(b))
    assert disp(phys(0, 1)) == "CC CC CC CC 3C" and disp(phys(0, 5)) == "CC CC CC CC E3"
    assert disp(phys(0o1, 1)) == "CC CC CC 3C 3C" and disp(phys(0o1, 4)) == "CC CC CC 3C 3E"
    assert disp(phys(0o2, 3)) == "CC CC CC 33 CE"
    assert disp(phys(0o123, 1)) == "CC 3C 33 CE 3C" and disp(phys(0o123, 5)) == "CC 3C 33 CE E3"
    n = sum(1 for a in range(0o10000) if valid(a))
    assert n == 781, n
    assert parent(0o124) == 0o24 and parent(0o24) == 0o4 and parent(0o4) == 0
    hops, cur = [], 0o124
    while cur != 0o3:
        cur = next_hop(cur, 0o3)
        hops.append(cur)
    assert hops == [0o24, 0o4, 0, 0o3], hops
    assert distance(0o124, 0o3) == 4 and distance(0o5555, 0o4444) == 8 and distance(0o15, 0o4515) == 2
    return True
