"""specs.frag_spec - reference fragmenter and TMRh20-style strict reassembler (independent of
the code under test).  Wire format (RF24Network): a message longer than `frag_size` (24) is
sent as ceil(n / frag_size) frames sharing one frame id; the first has type 148, the middle
ones 149, the last 150; `reserved` carries the descending fragment counter (total, total-1,
..., 2) and, in the last fragment, the original message type."""
FIRST, MORE, LAST = 148, 149, 150


def fragments(origin, to, fid, mtype, data, frag_size=24):
    """-> list of dicts(from_node, to_node, frame_id, message_type, reserved, len, ('b', j) bytes)"""
    n = len(data)
    total = (n + frag_size - 1) // frag_size
    out = []
    for c in range(total):
        chunk = data[c * frag_size:(c + 1) * frag_size]
        if c == total - 1:
            t, r = LAST, mtype
        elif c == 0:
            t, r = FIRST, total - c
        else:
            t, r = MORE, total - c
        fr = dict(from_node=origin, to_node=to, frame_id=fid, message_type=t, reserved=r, len=len(chunk))
        for j, b in enumerate(chunk):
            fr[("b", j)] = b
        out.append(fr)
    return out


def wire(fr):
    """8 header bytes (LE16 from, LE16 to, LE16 id, type, reserved) + body, concrete values"""
    h = [fr["from_node"] & 0xFF, fr["from_node"] >> 8, fr["to_node"] & 0xFF, fr["to_node"] >> 8,
         fr["frame_id"] & 0xFF, fr["frame_id"] >> 8, fr["message_type"], fr["reserved"]]
    return h + [fr[("b", j)] for j in range(fr["len"])]


class Reassembler:
    """TMRh20-style receiver keyed by (from_node, frame_id); strict sequence; works on parsed
    header fields (ints or symbolic values: decisions use `bool()`, i.e. fork)"""

    def __init__(self):
        self.cache = None
        self.out = []

    def feed(self, from_node, fid, mtype, reserved, body):
        if bool(mtype == FIRST):
            self.cache = dict(origin=from_node, id=fid, next=reserved - 1, data=list(body))
            return
        if self.cache is None or not bool(self.cache["origin"] == from_node) or not bool(self.cache["id"] == fid):
            return
        if bool(mtype == MORE):
            if bool(reserved == self.cache["next"]):
                self.cache["data"] += list(body)
                self.cache["next"] = reserved - 1
            else:
                self.cache = None
            return
        if bool(mtype == LAST):
            if bool(self.cache["next"] == 1):
                self.out.append(dict(origin=from_node, id=fid, type=reserved, data=self.cache["data"] + list(body)))
            self.cache = None


def selftest():
    fr = fragments(0o1, 0o2, 7, 65, list(range(50)))
    assert [f["message_type"] for f in fr] == [148, 149, 150] and [f["reserved"] for f in fr] == [3, 2, 65]
    assert [f["len"] for f in fr] == [24, 24, 2]
    r = Reassembler()
    for f in fr:
        r.feed(f["from_node"], f["frame_id"], f["message_type"], f["reserved"], [f[("b", j)] for j in range(f["len"])])
    assert r.out == [dict(origin=1, id=7, type=65, data=list(range(50)))]
    assert len(fragments(1, 2, 3, 4, list(range(48)))) == 2 and len(fragments(1, 2, 3, 4, list(range(144)))) == 6
    return True
