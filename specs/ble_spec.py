"""specs.ble_spec - bit-serial Bluetooth LE link-layer reference (Core specification Vol 6
Part B: 3.1.1 CRC, 3.2 whitening, 2.3 advertising PDUs; Supplement to the Core spec: AD types),
independent of the code under test.  Mode agnostic (int | SInt)."""
from vsym.core import s_ite

FREQ_TO_CHANNEL = {2: 37, 26: 38, 80: 39}  # nRF24 RF_CH (MHz above 2400) -> BLE advertising channel index


def rev8(x):
    r = 0
    for k in range(8):
        r = r | (((x >> k) & 1) << (7 - k))
    return r


def whiten_seq(channel, nbytes):
    """whitening LFSR x^7 + x^4 + 1: position 0 = 1, positions 1..6 = channel index MSB first; output
    from position 6; the returned bytes hold the sequence in air order (bit 0 first)"""
    st = [1] + [(channel >> (5 - i)) & 1 for i in range(6)]
    out = []
    for _ in range(nbytes):
        b = 0
        for k in range(8):
            o = st[6]
            st = [o] + st[:6]
            st[4] ^= o
            b |= o << k
        out.append(b)
    return out


def crc24_step(state, byte):
    """one byte (air order: bit 0 first) through the CRC LFSR x^24+x^10+x^9+x^6+x^4+x^3+x+1;
    `state` bit i = LFSR position i"""
    for k in range(8):
        fb = ((state >> 23) & 1) ^ ((byte >> k) & 1)
        state = ((state << 1) & 0xFFFFFF) ^ (fb * 0x00065B)
    return state


def crc24(data, init=0x555555):
    st = init
    for b in data:
        st = crc24_step(st, b)
    return st


def crc_wire(state):
    """the three CRC bytes as they appear in the (de-whitened) packet buffer: position 23 is
    transmitted first and every buffer byte goes out bit 0 first"""
    return [rev8((state >> 16) & 0xFF), rev8((state >> 8) & 0xFF), rev8(state & 0xFF)]


def crc_unwire(b3):
    return (rev8(b3[0]) << 16) | (rev8(b3[1]) << 8) | rev8(b3[2])


def air_to_pdu(radio_payload, rf_ch):
    """nRF24 payload bytes (sent MSB first) -> de-whitened packet bytes for the BLE channel of rf_ch"""
    seq = whiten_seq(FREQ_TO_CHANNEL[rf_ch], len(radio_payload))
    return [rev8(x) ^ w for x, w in zip(radio_payload, seq)]


def pdu_to_air(pdu, rf_ch):
    seq = whiten_seq(FREQ_TO_CHANNEL[rf_ch], len(pdu))
    return [rev8(x ^ w) for x, w in zip(pdu, seq)]


def adv_pdu(mac, ad_structures):
    """ADV_NONCONN_IND with TxAdd = 1 (0x42), length, 6-byte address, AD structures, CRC-24"""
    body = list(mac)
    for t, data in ad_structures:
        body += [len(data) + 1, t] + list(data)
    pdu = [0x42, len(body)] + body
    return pdu + crc_wire(crc24(pdu))


def selftest():
    # whitening sequence start for channel 37 (Core spec sample data: 0x8D, 0xD2, ...)
    assert whiten_seq(37, 4)[:2] == [0x8D, 0xD2], [hex(x) for x in whiten_seq(37, 4)]
    # CRC of the sample advertising packet used by the repository's own test
    pdu = list(b"\x42\x11\x56\x34\x12\x56\x34\x12\x02\x01\x05")
    st = crc24(pdu)
    assert crc_unwire(crc_wire(st)) == st
    return True
