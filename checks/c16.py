"""C16 - the mesh master leases each logical address to at most one node ID.

One INDUCTIVE STEP of the real master from an ARBITRARY valid lease table: dhcp_dict (the
documented public attribute) holds 0..k entries with symbolic IDs and addresses, assuming only
the invariant (distinct IDs, distinct valid non-zero addresses != 0o4444); one event is
delivered through the RX FIFO so that update(), _dhcp, set_address, release_address all run:
 - an address request with a symbolic ID 1..255, direct (origin 0o4444) or relayed by a symbolic
   valid node of level 1..3,
 - an address release from a symbolic origin.
Afterwards: the invariant holds again (so it holds for histories of any length); the granted
address is a valid direct child of the node the request came through, never 0 / 0o4444 / an
address leased to another ID; the requester has exactly one lease; the reply is a
MESH_ADDR_RESPONSE travelling back toward the requester with its ID in `reserved` and the
address little-endian; a full parent grants nothing and changes nothing; a release frees
exactly that address.
Persistence: save_dhcp() / load_dhcp() in both formats reproduce an arbitrary table exactly.
"""
from checks.netcommon import *  # noqa
from checks.c15 import sym_table
from vsym.symcoll import SymDict
from vsym import ctx as C

PROPERTY = "C16"


def table_items(node):
    d = node.dhcp_dict
    return list(d.kv) if isinstance(d, SymDict) else [list(i) for i in d.items()]


def invariant(ctx, items, what):
    for i, (k, a) in enumerate(items):
        ctx.check(s_and(NS.valid(a), a != 0, a != 0o4444), what + ": every leased address is valid, not 0, not 0o4444")
        for j in range(i):
            ctx.check(items[j][0] != k, what + ": one entry per ID")
            ctx.check(items[j][1] != a, what + ": no address is leased to two IDs")


def o_request(ctx, entries, via_lvl, second=False, intruder=False):
    clock = fresh_env(ctx)
    radio, node, _ = build_node(ctx, clock, "master", 0)
    link, _o = per_packet_link(ctx, radio)
    tab = sym_table(ctx, entries)
    node.dhcp_dict = SymDict(tab) if ctx.symbolic else dict(tab)
    rid = ctx.int("req_id", 1, 255)
    if via_lvl == 0:
        origin, via = 0o4444, 0
    else:
        via = sym_addr(ctx, "via", via_lvl)
        origin = via
    frame = [origin & 0xFF, origin >> 8, 0, 0, ctx.int("fid", 0, 255), 0, 195, rid]
    radio.inject_rx(ctx.int("pipe", 0, 5), frame)
    before = [list(e) for e in tab]
    sent0 = len(radio.sent)
    if intruder:
        # while the master waits for the NETWORK_ACK of its (routed) reply, a look-up from a connected node arrives; the ACK never
        # does, so the reply is sent again: it must still be the reply
        st = {"done": False}

        def on_look():
            if not st["done"] and len(radio.sent) > sent0 and radio.listening():
                st["done"] = True
                radio.inject_rx(3, [0o3, 0, 0, 0, 9, 0, 196, 0, ctx.int("looked_up_id", 1, 255)])
        clock.on_look = on_look
    node.update()
    clock.on_look = None
    after = table_items(node)
    invariant(ctx, after, "after an address request")
    mine = [a for k, a in after if bool(k == rid)]
    ctx.check(len(mine) <= 1, "the requesting ID has a single lease")
    pk = [e for e in distinct_packets(radio, sent0) if not intruder or bool(e["data"][6] == 128)]
    if intruder:
        ctx.check(st["done"], "the scenario was reached (the master waited for a NETWORK_ACK)")
        ctx.check(len(pk) >= 2, "the reply is sent again when its NETWORK_ACK does not arrive")
    had = [a for k, a in before if bool(k == rid)]
    shift = 3 * via_lvl
    if mine and not (had and bool(had[0] == mine[0]) and not pk):
        g = mine[0]
        ctx.check(s_and(NS.valid(g), g != 0, g != 0o4444), "the address handed out is a valid logical address, never 0 or 0o4444")
        ctx.check(NS.parent(g) == via, "it is a direct child of the node through which the request arrived")
        ctx.check(NS.level(g) == via_lvl + 1, "one level below that node")
        for k, a in before:
            ctx.check(s_or(k == rid, a != g), "never an address currently leased to another ID")
    if pk:
        ctx.check(len(mine) == 1, "a reply is only sent for a granted lease")
        for e in pk:
            d = e["data"]
            ctx.check(d[6] == 128, "the reply is a MESH_ADDR_RESPONSE")
            ctx.check(d[7] == rid, "carrying the requester's ID")
            ctx.check((d[2] | (d[3] << 8)) == origin, "travelling back toward the requester")
            if mine:
                ctx.check(len(d) == 10 and s_and(d[8] == (mine[0] & 0xFF), d[9] == (mine[0] >> 8)), "with the address little-endian")
        if via_lvl == 0:
            ctx.check(bytes_eq(pk[0]["addr"], NS.phys(0o4444, 0, True)), "direct requests are answered to the unassigned nodes' address")
    else:
        # nothing granted: every candidate below `via` is leased to another ID, and nothing changed
        ctx.check(len(after) == len(before), "a full parent grants nothing")
        for (k1, a1), (k2, a2) in zip(after, before):
            ctx.check(s_and(k1 == k2, a1 == a2), "a full parent changes nothing")
        slots = 5 if via_lvl == 0 else 4
        for i in range(1, slots + 1):
            cand = via | (i << shift)
            if via_lvl == 3 and i == 4:
                continue  # 0o4444 below 0o444 is never a candidate
            ctx.check(s_or(*[s_and(a == cand, k != rid) for k, a in before]) if before else False,
                      "nothing is granted only when every slot of that parent is leased to another ID")
    ctx.observe("after", [[k, a] for k, a in after])
    if second == "reassign" and mine:
        # the application hands the address just granted to another ID (set_address by address); the first ID asks again:
        # still no address is leased to two IDs
        nid = ctx.int("new_owner", 1, 255)
        ctx.assume(s_and(nid != rid, *[nid != k for k, _a in after]))
        node.set_address(nid, mine[0], True)
        invariant(ctx, table_items(node), "after set_address(new id, granted address, search_by_address)")
        radio.inject_rx(ctx.int("pipe_again", 0, 5), frame)
        node.update()
        invariant(ctx, table_items(node), "after the first ID asked again")
        ctx.reached()
        return
    # a following frame that is NOT an address request (a look-up from a connected node, carrying a non-zero reserved byte)
    # must not be served as one: asking never disturbs the master
    if entries <= 2:
        lk = [0o3, 0, 0, 0, 9, 0, 196, ctx.int("lookup_reserved", 1, 255), 0]
        radio.inject_rx(2, lk)
        node.update()
        again = table_items(node)
        ctx.check(len(again) == len(after), "a look-up after the request does not change the table")
        for (k1, a1), (k2, a2) in zip(again, after):
            ctx.check(s_and(k1 == k2, a1 == a2), "a look-up after the request does not change the table")
    ctx.reached()


def o_full_parent_then_lookup(ctx, direct):
    """structured pre-state that makes *full* reachable cheaply: every slot below the via node is leased (symbolic distinct
    IDs); a request through it is not served; a following look-up from another connected node must not be served as a request"""
    clock = fresh_env(ctx)
    radio, node, _ = build_node(ctx, clock, "master", 0)
    link, _o = per_packet_link(ctx, radio)
    via = 0 if direct else 0o2
    slots = [1, 2, 3, 4, 5] if direct else [0o12, 0o22, 0o32, 0o42]
    ids = []
    for i, a in enumerate(slots):
        k = ctx.int("held_id%d" % i, 1, 255)
        for o in ids:
            ctx.assume(k != o)
        ids.append(k)
    tab = [[k, a] for k, a in zip(ids, slots)]
    node.dhcp_dict = SymDict(tab) if ctx.symbolic else dict((k, a) for k, a in tab)
    rid = ctx.int("req_id", 1, 255)
    for o in ids:
        ctx.assume(rid != o)
    origin = 0o4444 if direct else via
    radio.inject_rx(0 if direct else 2, [origin & 0xFF, origin >> 8, 0, 0, 1, 0, 195, rid])
    sent0 = len(radio.sent)
    node.update()
    after = table_items(node)
    ctx.check(len(after) == len(tab), "a full parent grants nothing")
    ctx.check(len(distinct_packets(radio, sent0)) == 0, "and sends no address response")
    r2 = ctx.int("lookup_reserved", 1, 255)
    radio.inject_rx(3, [0o3 if direct else 1, 0, 0, 0, 9, 0, 196, r2, ctx.int("lookup_id", 0, 255)])
    node.update()
    again = table_items(node)
    ctx.check(len(again) == len(tab), "a look-up after an unserved request does not change the table (asking never disturbs the master)")
    for (k1, a1), (k2, a2) in zip(again, tab):
        ctx.check(s_and(k1 == k2, a1 == a2), "a look-up after an unserved request does not change the table")
    ctx.reached()


def o_release(ctx, entries):
    clock = fresh_env(ctx)
    radio, node, _ = build_node(ctx, clock, "master", 0)
    link, _o = per_packet_link(ctx, radio)
    tab = sym_table(ctx, entries)
    node.dhcp_dict = SymDict(tab) if ctx.symbolic else dict(tab)
    origin = ctx.int("origin", 1, 0o7777)
    ctx.assume(NS.valid(origin))
    radio.inject_rx(ctx.int("pipe", 0, 5), [origin & 0xFF, origin >> 8, 0, 0, 1, 0, 197, 0])
    node.update()
    after = table_items(node)
    invariant(ctx, after, "after a release")
    ctx.check(s_not(s_or(*[a == origin for k, a in after])) if after else True, "a released address becomes available again")
    kept = [e for e in tab if not bool(e[1] == origin)]
    ctx.check(len(after) == len(kept), "a release removes exactly the lease of that address")
    for (k1, a1), (k2, a2) in zip(after, kept):
        ctx.check(s_and(k1 == k2, a1 == a2), "other leases are untouched")
    ctx.reached()


def o_persist(ctx, entries, as_bin, into):
    from circuitpython_nrf24l01.rf24_mesh import RF24Mesh
    fs = C.MemFS(symbolic=ctx.symbolic)
    clock = fresh_env(ctx, fs=fs)
    radio, node, _ = build_node(ctx, clock, "master", 0)
    tab = sym_table(ctx, entries)
    node.dhcp_dict = SymDict(tab) if ctx.symbolic else dict(tab)
    node.save_dhcp("leases", as_bin)
    if into == "fresh":
        radio2, other, _ = build_node(ctx, clock, "master", 0, name="second")
    else:
        other = node
    if into == "scrambled":
        k0 = ctx.int("stale_id", 1, 255)
        a0 = ctx.int("stale_addr", 1, 0o7777)
        ctx.assume(s_and(NS.valid(a0), a0 != 0o4444, *[s_and(k0 != k, a0 != a) for k, a in tab]))
        other.dhcp_dict = SymDict([[k0, a0]]) if ctx.symbolic else {k0: a0}
    other.load_dhcp("leases", as_bin)
    after = table_items(other)
    want = [list(e) for e in tab] if into != "scrambled" else [[k0, a0]] + [list(e) for e in tab]
    ctx.check(len(after) == len(want), "load_dhcp() reproduces the table: same number of leases")
    for k, a in want:
        ctx.check(s_or(*[s_and(k2 == k, a2 == a) for k2, a2 in after]) if after else False, "every saved lease is loaded exactly")
    invariant(ctx, after, "after load_dhcp()")
    C.install_env(clock=clock, fs=None)
    ctx.reached()


def o_persist_big(ctx, count, as_bin):
    """tables of up to 255 CONCRETE entries through the REAL json module / binary format (enumeration, reported as such:
    the symbolic obligation above uses a contract stub for json)"""
    fs = C.MemFS(symbolic=False)
    clock = fresh_env(ctx, fs=fs)
    radio, node, _ = build_node(ctx, clock, "master", 0)
    addrs = [a for a in range(1, 0o10000) if NS.valid(a) and a != 0o4444][:count]
    table = {255 - i: a for i, a in enumerate(addrs)}
    node.dhcp_dict = dict(table)
    node.save_dhcp("big", as_bin)
    radio2, other, _ = build_node(ctx, clock, "master", 0, name="second")
    other.dhcp_dict = {}
    other.load_dhcp("big", as_bin)
    ctx.check(dict(other.dhcp_dict) == table, "save_dhcp()/load_dhcp() reproduce a table of %d leases exactly" % count)
    node.load_dhcp("big", as_bin)
    ctx.check(dict(node.dhcp_dict) == table, "loading into the same master changes nothing")
    C.install_env(clock=clock, fs=None)
    ctx.reached()


def jobs(tier):
    out = []
    ks = (0, 1, 2, 3, 4) if tier == "quick" else (0, 1, 2, 3, 4, 5)
    for k in ks:
        for via in range(4):
            out.append(Job("request-step", o_request, dict(entries=k, via_lvl=via), cost=4 ** k, shards=(1 if k < 3 else 4 if k == 3 else 12)))
        out.append(Job("release-step", o_release, dict(entries=k), cost=2 ** k))
    for k, via in (((1, 0), (2, 1)) if tier == "quick" else ((0, 0), (1, 0), (2, 1), (2, 2), (3, 0))):
        out.append(Job("request-then-set_address-then-request", o_request, dict(entries=k, via_lvl=via, second="reassign"), cost=10 * 4 ** k, shards=2))
    for via in ((2,) if tier == "quick" else (2, 3)):
        out.append(Job("request-step-with-an-intruding-look-up", o_request, dict(entries=1, via_lvl=via, intruder=True), cost=20, shards=2))
    for count in ((0, 1, 128, 255) if tier == "quick" else (0, 1, 2, 64, 127, 128, 200, 254, 255)):
        for as_bin in (False, True):
            out.append(Job("save-load-concrete-real-json", o_persist_big, dict(count=count, as_bin=as_bin), cost=2))
    for direct in (True, False):
        out.append(Job("full-parent-then-lookup", o_full_parent_then_lookup, dict(direct=direct), cost=20, shards=4))
    for k in ((0, 1, 3) if tier == "quick" else (0, 1, 2, 3, 4)):
        for as_bin in (False, True):
            for into in ("fresh", "same", "scrambled"):
                out.append(Job("save-load", o_persist, dict(entries=k, as_bin=as_bin, into=into), cost=3 ** k))
    return out


META = {
    "bounds": {"quick": "arbitrary valid tables of 0..4 symbolic leases; request with symbolic ID 1..255, direct or relayed by a "
                        "symbolic node of level 1, 2, 3 (all addresses); release from a symbolic valid origin; the structured full-parent pre-state (5 direct / 4 relayed slots leased to "
                        "symbolic IDs) followed by a look-up; save/load of "
                        "tables with 0/1/3 symbolic leases in both formats into a fresh master, the same master and a master "
                        "holding a stale lease; concrete tables of 0/1/128/255 leases through the real json module and the binary format",
               "thorough": "tables of up to 5 symbolic leases"},
    "outside": ["tables with more than 5 entries in the inductive step (the scan is uniform in the table length: an argument, not a "
                "solver result)", "JSON text round trip: the json module is replaced by a contract stub (json.load(json.dumps(d)) "
                "== {decimal string of k: v}) in symbolic runs; concrete replays use the real module",
                "requests whose frame is forged with an invalid relaying address (C15 drops them)"],
    "assumptions": ["invariant assumed for the pre-state: distinct IDs 1..255, distinct valid non-zero addresses != 0o4444",
                    "one outcome per transmitted packet", "in-memory file system stub"],
}

if __name__ == "__main__":
    import sys
    sys.exit(main(sys.modules[__name__]))
