"""C07 - after any network operation the node listens again on all its addresses.

A single real node of every role at a symbolic address; EVERY packet it transmits gets a
symbolic outcome (next hop absent / ACKs lost = never acknowledged), a NETWORK_ACK arrives at a
symbolic moment or never, the clock is virtual.  After every public network / mesh call of a
history (depth 1, 2 in the thorough tier) - whether it succeeded, failed, timed out, forwarded
traffic or raised - the radio must be powered up in RX mode with CE high, all six pipes open
on the node's own addresses (pipe 0 on its level's shared address), auto-ack on pipes 1-5 and
off on pipe 0, dynamic payloads on.
"""
from checks.netcommon import *  # noqa

PROPERTY = "C07"
NET_OPS = ("update", "write_self", "write_child", "write_parent", "write_desc", "write_other", "multicast",
           "node_address", "multicast_level")
MESH_OPS = ("update", "renew_none", "release", "lookup_address", "lookup_node_id", "check_connection", "check_connection_master",
            "mesh_send", "mesh_write", "multicast")


def target(ctx, x, lvl, kind, tag):
    if kind == "self":
        return x
    if kind == "child":
        return x | (ctx.int(tag + "_c", 1, 5) << (3 * lvl))
    if kind == "parent":
        return NS.parent(x)
    if kind == "desc":
        return x | (ctx.int(tag + "_c", 1, 5) << (3 * lvl)) | (ctx.int(tag + "_g", 1, 5) << (3 * lvl + 3))
    d = sym_addr(ctx, tag + "_o", 1 + ctx.choice(tag + "_olvl", 4))
    ctx.assume(s_and(d != x, s_not(NS.is_descendant(d, x)), d != NS.parent(x)))
    return d


def do_op(ctx, op, role, node, radio, clock, x, lvl, step, n):
    """perform one public call; -> (address afterwards, pipe-0 level override)"""
    from circuitpython_nrf24l01.network.structs import RF24NetworkHeader
    tag = "s%d" % step
    mesh = role in ("mesh", "master")
    if op == "update":
        radio.inject_rx(ctx.int(tag + "_pipe", 0, 5), blist(ctx.bytes(tag + "_rx", n if n >= 8 else 10)))
        node.update()
        return node.node_address, None
    if op.startswith("write_"):
        kind = op[6:]
        d = target(ctx, x, lvl, kind, tag)
        ack_type = bool(ctx.choice(tag + "_acktype", 2))
        t = ctx.int(tag + "_type", 65, 127) if ack_type else ctx.int(tag + "_type", 0, 64)
        msg = ctx.bytes(tag + "_msg", n)
        if mesh:
            node.write(d, t, msg)
        else:
            node.send(RF24NetworkHeader(d, t), msg)
        return x, None
    if op == "multicast":
        node.multicast(ctx.bytes(tag + "_msg", n), ctx.int(tag + "_type", 0, 127), ctx.int(tag + "_lvl", -1, 5))
        return x, None
    if op == "node_address":
        new = sym_addr(ctx, tag + "_new", ctx.choice(tag + "_newlvl", 5))
        node.node_address = new
        return new, None
    if op == "multicast_level":
        L = ctx.int(tag + "_L", -1, 6)
        node.multicast_level = L
        return x, s_ite(L < 0, 0, s_ite(L > 4, 4, L))
    if op == "renew_none":
        r = node.renew_address(0.25)
        ctx.check(r is None, "renew_address() without any responder returns None")
        return node.node_address, None
    if op == "renew_partial":
        # a master that answers the poll and the address request but never the confirming look-ups (they are lost): the node
        # gives the address up again - and must then listen as the unassigned node it says it is
        seen = {"poll": 0, "req": 0}
        prev = clock.on_look
        nid = node.node_id
        offered = ctx.int(tag + "_offered", 1, 5)

        def stub():
            if prev:
                prev()
            if not radio.listening() or not radio.sent:
                return
            last = radio.sent[-1]["data"]
            t = last[6]
            if bool(t == 194) and seen["poll"] < len(radio.sent):
                seen["poll"] = len(radio.sent)
                radio.inject_rx(0, [0, 0, 0x24, 0x09, 1, 0, 194, 0])
            elif bool(t == 195) and seen["req"] < len(radio.sent):
                seen["req"] = len(radio.sent)
                radio.inject_rx(0, [0, 0, 0x24, 0x09, 2, 0, 128, nid, offered, 0])
        clock.on_look = stub
        try:
            r = node.renew_address(0.6)
        finally:
            clock.on_look = prev
        ctx.check(seen["req"] > 0, "the scenario was reached (an address was offered)")
        ctx.check(r is None, "renew_address() returns None when the offered address cannot be confirmed")
        return node.node_address, None
    if op == "release":
        node.release_address()
        return node.node_address, None
    if op == "lookup_address":
        node.lookup_address(ctx.int(tag + "_id", 0, 255))
        return x, None
    if op == "lookup_node_id":
        node.lookup_node_id(sym_addr(ctx, tag + "_a", 2))
        return x, None
    if op == "check_connection":
        node.check_connection()
        return x, None
    if op == "check_connection_master":
        node.check_connection(2, True)
        return x, None
    if op == "mesh_send":
        node.send(ctx.int(tag + "_id", 0, 255), ctx.int(tag + "_type", 0, 127), ctx.bytes(tag + "_msg", n))
        return x, None
    if op == "mesh_write":
        node.write(sym_addr(ctx, tag + "_d", 2), ctx.int(tag + "_type", 0, 127), ctx.bytes(tag + "_msg", n))
        return x, None
    raise AssertionError(op)


def h_history(ctx, role, lvl, ops, n, ack_arrives, link="per-packet", prep=()):
    clock = fresh_env(ctx, tick_ns=5_000_000)
    clock.max_looks = 20000
    radio, node, x = build_node(ctx, clock, role, lvl)
    if link == "outage":  # every packet is acknowledged only after an outage of symbolic length (re-sent from the TX FIFO meanwhile)
        link, outcome = outage_link(ctx, radio, clock, (0, 20, 60, None))
    else:
        link, outcome = per_packet_link(ctx, radio)
    inject_at = ctx.int("ack_at_look", 0, 30) if ack_arrives else None
    base = {"looks": 0}

    def on_look():
        if inject_at is None or base.get("done"):
            return
        if bool(clock.looks - base["looks"] == inject_at) and radio.listening():
            a = node.node_address
            radio.inject_rx(1, [a & 0xFF, a >> 8, a & 0xFF, a >> 8, 1, 0, 193, 0])
            base["done"] = True
    clock.on_look = on_look
    # what the application did to the node beforehand (not network calls themselves: nothing is judged right after them)
    for pr in prep:
        if pr == "power_off":  # the application put the radio to sleep
            node.power = False
        elif pr == "listen_off":  # ... or into TX mode
            node.listen = False
        elif pr == "interrupt_config":  # ... or chose which events drive the IRQ pin (not a change of role)
            node.interrupt_config(*((False, True, True), (True, False, False), (False, False, False))[ctx.choice("irq_cfg", 3)])
        elif pr == "getters":  # ... or merely read every read-only attribute
            touch_getters(node)
        elif pr == "route_timeout":  # boundary and small values of the time-outs (0 = do not wait at all)
            node.route_timeout = ctx.int("route_timeout", 0, 12)
        elif pr == "tx_timeout":
            node.tx_timeout = ctx.int("tx_timeout", 0, 12)
        else:
            raise AssertionError(pr)
    p0 = None  # pipe-0 level chosen with multicast_level (persists until the node gets a new address)
    for step, op in enumerate(ops):
        base["looks"] = clock.looks
        base.pop("done", None)
        try:
            x, new_p0 = do_op(ctx, op, role, node, radio, clock, x, node.multicast_level if step else lvl, step, n)
            if op == "multicast_level":
                p0 = new_p0
            elif op in ("node_address", "renew_none", "renew_partial", "release"):
                p0 = None
        except (ValueError, AttributeError, TypeError) as e:  # documented argument errors: the node must still listen
            x = node.node_address
        what = "after %s" % op
        ctx.check((radio.reg[0] & 3) == 3, what + ": powered up in receive mode")
        ctx.check(radio.ce == True, what + ": CE high")  # noqa: E712
        ctx.check(radio.reg[2] == 0x3F, what + ": all six pipes open")
        for p in range(6):
            want = NS.phys(x, p, True) if not (p == 0 and p0 is not None) else NS.level_addr(p0)
            ctx.check(bytes_eq(effective_addr(radio, p), want), what + ": pipe %d listens on the node's own address" % p)
        ctx.check(radio.reg[1] == 0x3E, what + ": auto-ack on pipes 1-5, off on pipe 0")
        ctx.check(s_and(radio.reg[0x1C] == 0x3F, (radio.read_reg(0x1D) & 4) == 4), what + ": dynamic payloads on")
    ctx.reached()


def jobs(tier):
    out = []
    for role in ("routing", "net"):
        for lvl in (((0, 2) if role == "routing" else (0, 1, 3)) if tier == "quick" else range(5)):
            ops = ("update", "node_address", "multicast_level") if role == "routing" else NET_OPS
            for op in ops:
                if (op in ("write_parent", "write_other") and lvl == 0) or (op == "write_child" and lvl == 4) or (op == "write_desc" and lvl >= 3):
                    continue
                for n in (((0, 25, 72) if tier == "thorough" else (0, 72) if lvl == 1 else (25,)) if op.startswith("write") else (25,) if op == "multicast" else (10,)):
                    for ack in ((False, True) if op in ("write_desc", "write_other", "write_parent") else (False,)):
                        out.append(Job("single-call", h_history, dict(role=role, lvl=lvl, ops=[op], n=n, ack_arrives=ack),
                                       cost=10 + n, shards=(6 if op == "update" else 3 if op.startswith("write") else 1)))
    for lvl in ((1, 2) if tier == "quick" else range(1, 5)):
        for op in MESH_OPS:
            out.append(Job("single-call", h_history, dict(role="mesh", lvl=lvl, ops=[op], n=(25 if op != "update" else 10),
                                                          ack_arrives=op in ("lookup_address", "mesh_send", "check_connection_master")),
                           cost=30, shards=3))
    out.append(Job("single-call", h_history, dict(role="mesh", lvl=4, ops=["renew_none"], n=0, ack_arrives=False), cost=30))
    for lvl in ((4, 1) if tier == "quick" else (4, 1, 2)):  # (level 4 with every digit 4 = the unassigned address itself)
        out.append(Job("single-call-unconfirmed-join", h_history, dict(role="mesh", lvl=lvl, ops=["renew_partial"], n=0, ack_arrives=False), cost=60))
    out.append(Job("single-call", h_history, dict(role="master", lvl=0, ops=["update"], n=10, ack_arrives=False), cost=30, shards=6))
    out.append(Job("single-call", h_history, dict(role="master", lvl=0, ops=["multicast"], n=25, ack_arrives=False), cost=10))
    for lvl, op, n in (((1, "write_parent", 49), (2, "write_desc", 25), (1, "write_child", 0)) if tier == "quick" else
                       [(l, o, n) for l in (1, 2, 3) for o in ("write_parent", "write_child", "write_desc", "write_other") for n in (0, 49, 72)
                        if not (o == "write_desc" and l == 3)]):
        out.append(Job("single-call-through-outages", h_history, dict(role="net", lvl=lvl, ops=[op], n=n, ack_arrives=False, link="outage"),
                       cost=40, shards=4))
    for pr, lvl, op, n, ack in ([("getters", 2, op, 25, False) for op in ("write_child", "write_parent", "update", "multicast")] +
                                [("interrupt_config", 1, op, 10, False) for op in ("update", "write_self", "multicast_level")] +
                                [(pr, 1, op, 0, False) for pr in ("power_off", "listen_off") for op in
                                 ("write_self", "write_child", "write_parent", "multicast", "multicast_level", "node_address")] +
                                [(pr, lvl, op, n, ack) for pr in ("route_timeout", "tx_timeout") for lvl, op, n in ((1, "write_other", 0), (2, "write_desc", 25), (2, "write_parent", 0))
                                 for ack in (False, True)]):
        out.append(Job("single-call-after-the-application-changed-" + pr.replace("_", "-"), h_history,
                       dict(role="net", lvl=lvl, ops=[op], n=n, ack_arrives=ack, prep=[pr]), cost=30, shards=(6 if op == "update" else 3)))
    pairs = [("multicast", "write_child"), ("node_address", "write_parent"), ("multicast_level", "multicast"),
             ("write_self", "multicast_level"), ("multicast_level", "write_parent"), ("write_parent", "node_address"),
             ("multicast_level", "node_address"), ("node_address", "multicast_level"), ("node_address", "node_address")]
    if tier == "thorough":  # the cheap first calls x every second call; update/write first calls x the state-changing second calls
        light = ("multicast", "node_address", "multicast_level", "write_self")
        pairs = [(a, b) for a in light for b in NET_OPS] + [(a, b) for a in NET_OPS if a not in light
                                                             for b in ("node_address", "multicast_level", "multicast")]
    triples = [("multicast_level", "node_address", "write_parent"), ("node_address", "multicast_level", "write_child"),
               ("multicast_level", "write_parent", "node_address"), ("multicast_level", "node_address", "multicast")]
    if tier == "thorough":
        triples += [("node_address", "node_address", "write_parent"), ("multicast_level", "multicast_level", "write_child"),
                    ("write_parent", "node_address", "write_parent"), ("multicast", "multicast_level", "write_other")]
    for t in triples:
        out.append(Job("three-calls", h_history, dict(role="net", lvl=2, ops=list(t), n=0, ack_arrives=False), cost=120, shards=8))
    for a, b in pairs:
        out.append(Job("two-calls", h_history, dict(role="net", lvl=2, ops=[a, b], n=25, ack_arrives=False), cost=60, shards=4))
    return out


META = {
    "bounds": {"quick": "network nodes (routing-only: update / node_address / multicast_level; full: also write to self / child / "
                        "parent / descendant / other branch with ack-type and non-ack-type, lengths 0/25/72, multicast) at levels "
                        "0, 1, 3; mesh nodes at levels 1, 2 (update, renew_address without responder, release_address, lookups, "
                        "check_connection, send, write, multicast); the master's update(); every address digit, type, content, "
                        "received frame (10 symbolic bytes) symbolic; one symbolic outcome per transmitted packet; a NETWORK_ACK / "
                        "lookup answer injected at a symbolic clock look or never; 9 two-call and 4 three-call histories; calls made after the application itself powered the radio down / left it in TX mode (write, multicast, node_address, multicast_level) or set route_timeout / tx_timeout to a symbolic 0..12 ms",
               "thorough": "levels 0..4, 51 two-call histories of a network node"},
    "outside": ["histories deeper than 2", "renew_address() with responders (co-simulated in C17, which asserts the same "
                "post-condition)", "timing jitter: the clock tick is a constant 5 ms"],
    "assumptions": ["one outcome per transmitted packet (all its automatic and forced retries share it), or - in the 'through outages' "
                    "obligations - acknowledged only after a symbolic outage of 0 / 20 / 60 ms / for ever counted from its first attempt",
                    "reference addresses specs/net_spec.phys / level_addr with the default prefix/suffix bytes"],
}

if __name__ == "__main__":
    import sys
    sys.exit(main(sys.modules[__name__]))
