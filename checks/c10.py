"""C10 - FIFO and status accessors report the radio's true state.

One real RF24 on a radio model whose FIFOs and flags are ARBITRARY: 0..3 RX payloads (symbolic
pipe and contents), 0..3 TX / ACK payloads, symbolic RX_DR / TX_DS / MAX_RT, symbolic ARC_CNT,
dynamic or static payload mode, RX or TX role.  Every history of 1-2 accessor / mutator calls
is compared with the model's ground truth: return values, the exact FIFO / flag delta of each
mutator, and the IRQ line.  The attributes that decode the cached STATUS byte (pipe, tx_full,
irq_*) are compared with the radio's state as of the start of the driver's last SPI
transaction (what the chip returns; after update() that is the current state).
"""
from checks.common import *  # noqa

PROPERTY = "C10"
STATIC_LENS = (3, 32, 1, 5, 17, 2)
OPS = ("update", "available", "any", "pipe", "fifo", "tx_full", "irq", "read", "clear", "flush_rx", "flush_tx",
       "last_tx_arc", "interrupt_config")
CONFIG_WRITERS = ("listen_flip", "listen_same", "crc", "power_cycle", "reenter")
BLOCK_OPS = ("foreign_block", "load_ack_static")


def decode_status(ctx, nrf, st, what):
    p = (st >> 1) & 7
    got = nrf.pipe
    if got is None:
        ctx.check(p > 5, what + ": pipe is None only when the status says the RX FIFO is empty")
    else:
        ctx.check(s_and(p <= 5, got == p), what + ": pipe = RX_P_NO of the last status byte")
    ctx.check(nrf.tx_full == ((st & 1) != 0), what + ": tx_full = TX_FULL of the last status byte")
    ctx.check(nrf.irq_dr == ((st & 0x40) != 0), what + ": irq_dr = RX_DR")
    ctx.check(nrf.irq_ds == ((st & 0x20) != 0), what + ": irq_ds = TX_DS")
    ctx.check(nrf.irq_df == ((st & 0x10) != 0), what + ": irq_df = MAX_RT")


def h_history(ctx, ops, role, driver="full", light=False):
    clock = fresh_env(ctx)
    lite = driver == "lite"
    radio, nrf = new_lite(clock) if lite else new_rf24(clock)
    # 0 static, 1 dynamic, 2 static configuration followed by ack = True (dynamic again), 3 static configuration followed by
    # set_dynamic_payloads(True, q) for ONE pipe q (full driver: the modes are per pipe)
    mode = 1 if light else ctx.choice("dynamic", 3 if lite else 4)
    dyn_pipe = None
    dynamic = mode != 0
    lens = STATIC_LENS if not lite else (7,) * 6  # the lite driver has one global static length
    if mode == 1:
        nrf.dynamic_payloads = True
    else:
        nrf.dynamic_payloads = False
        nrf.payload_length = list(STATIC_LENS) if not lite else 7
        if not lite:
            nrf.set_payload_length(ctx.int("oversized_width", 33, 300), 1)  # clamped to the 32 bytes pipe 1 already had
        if mode == 3:
            dyn_pipe = (2, 4, 5)[ctx.choice("dynamic_pipe", 3)]
            nrf.set_dynamic_payloads(True, dyn_pipe)
        if mode == 2:
            nrf.ack = True  # enables dynamic payload lengths again (EN_DPL; pipe 0 - every pipe on the lite driver)
    for p in range(6):
        nrf.open_rx_pipe(p, bytes([0x40 + p, 9, 8, 7, 6]))
    nrf.listen = (role == "rx")
    n_rx, n_tx = (ctx.choice("n_rx", 4), (0, 1, 3)[ctx.choice("n_tx", 3)]) if not light else (ctx.choice("n_rx", 2), ctx.choice("n_tx", 2))
    for i in range(n_rx):
        if mode == 3:
            pipe = (dyn_pipe, 0, dyn_pipe)[i]
            ln = (4, STATIC_LENS[0], 9)[i]  # lengths on the dynamic pipe differ from its (still configured) static width
        elif mode == 2 and not lite:
            pipe = (0, 3, 5)[i]
            ln = 4 if pipe == 0 else STATIC_LENS[pipe]
        elif dynamic:
            pipe = ctx.int("rxpipe%d" % i, 0, 5)
            ln = (2, 32, 1)[i]
        else:
            # static widths depend on the pipe: the head's pipe is enumerated, the others are fixed
            pipe = ctx.choice("rxpipe0", 6) if i == 0 else (i * 2 + 1) % 6
            ln = lens[pipe]
        radio.rx_fifo.append((pipe, blist(ctx.bytes("rx%d" % i, ln))))
    for i in range(n_tx):
        kind = "ack" if role == "rx" else "tx"
        radio.tx_fifo.append([kind, ctx.int("txpipe%d" % i, 0, 5) if kind == "ack" else 0,
                              blist(ctx.bytes("tx%d" % i, 2)), "pre#%d" % i])
    radio.irq = ctx.int("flags", 0, 7) << 4
    radio.arc_cnt = ctx.int("arc_cnt", 0, 15)
    last_st = [None]
    orig_xfer = radio.xfer

    def spy(out):
        r = orig_xfer(out)
        last_st[0] = r[0]
        return r
    radio.xfer = spy

    mask = [radio.reg[0] & 0x70]  # ghost: the IRQ mask bits the application last asked for

    def irq_mask_kept(what):
        ctx.check((radio.reg[0] & 0x70) == mask[0], what + ": the IRQ mask bits are the ones interrupt_config() last established")
        en = ((~mask[0]) & 0x70) & radio.irq
        ctx.check(radio.irq_line_active() == (en != 0), what + ": the IRQ line asserts for exactly the enabled events")

    for step, op in enumerate(ops):
        if op in CONFIG_WRITERS or op in BLOCK_OPS:
            # calls that rewrite CONFIG from the driver's shadow: the mask interrupt_config() established must survive them
            if op == "listen_flip":
                nrf.listen = not nrf.listen
            elif op == "listen_same":
                nrf.listen = (role == "rx")
            elif op == "crc":
                nrf.crc = ctx.int("crc%d" % step, 0, 2)
            elif op == "power_cycle":
                nrf.power = False
                nrf.power = True
            elif op == "reenter":
                nrf.__exit__(None, None, None)
                nrf.__enter__()
            elif op == "load_ack_static":
                # an ACK payload loaded for a pipe: enables the ACK-payload feature if need be (pipe 0 dynamic, documented) and
                # otherwise leaves every pipe's length mode and static width as configured - any()/read() rely on them
                if role == "rx" and len(radio.tx_fifo) < 3:
                    modes0, widths0 = radio.reg[0x1C], [radio.reg[0x11 + p] for p in range(6)]
                    q = 1 + ctx.choice("ack_pipe%d" % step, 5)
                    ctx.check(nrf.load_ack(b"\x07\x08", q) == True, "load_ack_static: accepted while the TX FIFO has room")  # noqa: E712
                    ctx.check((radio.reg[0x1C] & 0x3E) == (modes0 & 0x3E), "load_ack_static: the length modes of pipes 1-5 stay as configured")
                    for p in range(6):
                        ctx.check(radio.reg[0x11 + p] == widths0[p], "load_ack_static: static widths stay as configured")
            elif op == "foreign_block":
                # another driver object uses the shared radio in a block of its own (other widths, pipes closed); back in this
                # object's block the pipes are opened again: the widths any()/read() rely on must be the radio's
                from circuitpython_nrf24l01.rf24 import RF24
                widths0, modes0 = [radio.reg[0x11 + p] for p in range(6)], radio.reg[0x1C]
                nrf.close_rx_pipe(3)  # (two of this object's pipes are closed when it leaves, and opened again afterwards)
                nrf.close_rx_pipe(5)
                nrf.__exit__(None, None, None)
                other = RF24(FakeSpiDev(radio), 0, Pin(radio))
                with other:
                    other.dynamic_payloads = False
                    other.payload_length = 9
                    for p in range(6):
                        other.close_rx_pipe(p)
                nrf.__enter__()
                for p in range(6):
                    nrf.open_rx_pipe(p, bytes([0x40 + p, 9, 8, 7, 6]))
                nrf.listen = (role == "rx")
                for p in range(6):
                    ctx.check(radio.reg[0x11 + p] == widths0[p], "foreign_block: pipe %d has the static width this object established (any()/read() rely on it)" % p)
                ctx.check(radio.reg[0x1C] == modes0, "foreign_block: the per-pipe length modes are the ones this object established")
            irq_mask_kept("%s#%d" % (op, step))
            continue
        rx0, tx0, irq0, cfg0 = [(p, list(d)) for p, d in radio.rx_fifo], [list(e) for e in radio.tx_fifo], radio.irq, radio.reg[0]
        what = "%s#%d" % (op, step)
        exp_rx, exp_tx, exp_irq = rx0, tx0, irq0  # default: nothing changes
        if op == "update":
            ctx.check(nrf.update() == True, what + ": update() returns True")  # noqa: E712
            decode_status(ctx, nrf, radio.status(), what + " (fresh)")
        elif op == "available":
            ctx.check(nrf.available() == (len(rx0) > 0), what + ": available() = RX FIFO not empty")
        elif op == "any":
            ctx.check(nrf.any() == (len(rx0[0][1]) if rx0 else 0), what + ": any() = length of the next payload (0 if none)")
        elif op == "pipe":
            nrf.update()
            got = nrf.pipe
            if rx0:
                ctx.check(got is not None and got == rx0[0][0], what + ": pipe = pipe of the next payload")
            else:
                ctx.check(got is None, what + ": pipe is None when nothing is queued")
        elif op == "fifo":
            about_tx, mode = bool(ctx.choice("about_tx%d" % step, 2)), ctx.choice("fifo_mode%d" % step, 3)
            n = len(tx0) if about_tx else len(rx0)
            empty, full = n == 0, n == 3
            if mode == 0:
                ctx.check(nrf.fifo(about_tx) == (int(empty) | (int(full) << 1)), what + ": fifo() = full<<1 | empty")
            elif mode == 1:
                ctx.check(nrf.fifo(about_tx, True) == empty, what + ": fifo(check_empty=True) = empty")
            else:
                ctx.check(nrf.fifo(about_tx, False) == full, what + ": fifo(check_empty=False) = full")
        elif op == "tx_full":
            nrf.update()
            ctx.check(nrf.tx_full == (len(tx0) == 3), what + ": tx_full after update()")
        elif op == "irq":
            nrf.update()
            ctx.check(s_and(nrf.irq_dr == ((irq0 & 0x40) != 0), nrf.irq_ds == ((irq0 & 0x20) != 0),
                            nrf.irq_df == ((irq0 & 0x10) != 0)), what + ": irq_dr/irq_ds/irq_df = latched events")
        elif op == "read":
            got = nrf.read()
            if rx0:
                ctx.check(got is not None and len(got) == len(rx0[0][1]) and bytes_eq(got, rx0[0][1]),
                          what + ": read() returns the next payload")
                exp_rx = rx0[1:]
                exp_irq = irq0 & ~0x40
            else:
                ctx.check(got is None, what + ": read() on an empty FIFO returns None")
        elif op == "clear":
            a, b, c = (ctx.bit("clr%d_%d" % (step, i)) for i in range(3))  # 0/1 stand in for False/True
            nrf.clear_status_flags(a, b, c)
            exp_irq = irq0 & ~((a << 6) | (b << 5) | (c << 4))
        elif op == "flush_rx":
            nrf.flush_rx()
            exp_rx = []
        elif op == "flush_tx":
            nrf.flush_tx()
            exp_tx = []
        elif op == "last_tx_arc":
            ctx.check(nrf.last_tx_arc == radio.arc_cnt, what + ": last_tx_arc = ARC_CNT")
        elif op == "interrupt_config":
            a, b, c = (bool(ctx.choice("irqcfg%d_%d" % (step, i), 2)) for i in range(3))
            nrf.interrupt_config(a, b, c)
            ctx.check(radio.reg[0] == ((cfg0 & 0x0F) | (int(not a) << 6) | (int(not b) << 5) | (int(not c) << 4)),
                      what + ": CONFIG mask bits as requested, other CONFIG bits unchanged")
            want = s_or(s_and(a, (irq0 & 0x40) != 0), s_and(b, (irq0 & 0x20) != 0), s_and(c, (irq0 & 0x10) != 0))
            ctx.check(radio.irq_line_active() == want, what + ": the IRQ line asserts for exactly the enabled events")
            mask[0] = (int(not a) << 6) | (int(not b) << 5) | (int(not c) << 4)
        # exact delta
        ctx.check(len(radio.rx_fifo) == len(exp_rx), what + ": RX FIFO occupancy after the call")
        for (p1, d1), (p2, d2) in zip(radio.rx_fifo, exp_rx):
            ctx.check(s_and(p1 == p2, len(d1) == len(d2) and bytes_eq(d1, d2)), what + ": RX FIFO contents after the call")
        ctx.check(len(radio.tx_fifo) == len(exp_tx), what + ": TX FIFO occupancy after the call")
        ctx.check(radio.irq == exp_irq, what + ": exactly the requested flags change")
        if op != "interrupt_config":
            ctx.check(radio.reg[0] == cfg0, what + ": CONFIG untouched")
        if last_st[0] is not None:
            decode_status(ctx, nrf, last_st[0], what + " (cached)")
    ctx.check(not radio.unspecified, "no use of radio behaviour the specification leaves open")
    ctx.reached()


def jobs(tier):
    out = []
    seqs = [(a,) for a in OPS]
    if tier == "quick":
        seqs += [(a, b) for a in ("read", "clear", "flush_rx") for b in OPS]
        seqs += [(a, "read") for a in OPS] + [("flush_tx", "fifo"), ("flush_tx", "tx_full"), ("update", "irq")]
    else:
        seqs += [(a, b) for a in OPS for b in OPS]
        seqs += [("read", "read", b) for b in OPS] + [("read", "flush_rx", b) for b in OPS] + [("clear", "read", b) for b in OPS]
    seqs += [("interrupt_config", w) for w in CONFIG_WRITERS] + [("interrupt_config", "listen_flip", "interrupt_config"),
                                                                 ("interrupt_config", "reenter", "listen_flip")]
    seqs += [("foreign_block",), ("foreign_block", "any"), ("foreign_block", "read"), ("load_ack_static", "any"), ("load_ack_static", "read")]
    if tier != "quick":
        seqs += [("interrupt_config", w, v) for w in CONFIG_WRITERS for v in CONFIG_WRITERS + ("update", "read", "clear")]
    for s in sorted(set(seqs)):
        for role in ("rx", "tx"):
            if ("foreign_block" in s or "load_ack_static" in s) and role == "tx":
                continue
            light = any(o in CONFIG_WRITERS for o in s)  # the IRQ mask does not depend on how full the FIFOs are
            out.append(Job("accessor-history", h_history, dict(ops=list(s), role=role, **({"light": True} if light else {})), cost=len(s)))
    return out


META = {
    "bounds": {"quick": "every single accessor/mutator and the pairs starting with read/clear/flush_rx or ending "
                        "in read, from an arbitrary radio state: RX occupancy 0..3 (symbolic pipes 0..5, symbolic contents, "
                        "lengths 2/32/1 dynamic or per-pipe static widths 3,32,1,5,17,2), TX occupancy 0/1/3 (ACK payloads in RX "
                        "role, TX payloads in TX role), all 8 flag combinations, ARC_CNT 0..15, all argument combinations",
               "thorough": "all 13x13 pairs and 39 triples"},
    "outside": ["interrupt_config() followed by more than two CONFIG-rewriting calls (listen, crc, power, context re-entry)", "read(length) with a length different from the payload's (partial reads are not specified by the product "
                "specification)", "traffic-driven histories (covered through C01/C02 with the same radio model)",
                "histories deeper than 3"],
    "assumptions": ["SimRadio FIFO / STATUS / FIFO_STATUS / OBSERVE_TX semantics (product specification 8.3, 9.1)",
                    "static mode: queued payloads have the width configured for their pipe (the radio only accepts those); mixed mode (one pipe made dynamic with set_dynamic_payloads(True, q), q in {2,4,5}): payloads of 4 and 9 bytes on q, the static width elsewhere"],
}

if __name__ == "__main__":
    import sys
    sys.exit(main(sys.modules[__name__]))
