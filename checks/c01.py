"""C01 - link payload integrity: what send()/write() is given is what the peer's read() returns.

O1  TX framing on one radio: exactly one W_TX_PAYLOAD(_NOACK) per payload carrying the
    zero-padded / truncated / unchanged bytes; ValueError iff dynamic and (n = 0 or n > 32)
    and then nothing reached the radio; the caller's buffer object is untouched.
O2  RX side: any()/pipe/read() return the FIFO head, in order, each once.
O3  link: two real drivers on the loss-free medium, configured through public setters only; also after a context
    re-entry, and in both directions between two transceivers that switch roles (reading pipe 0 or 1).
"""
from checks.common import *  # noqa

PROPERTY = "C01"
STATIC_LENS = (1, 32, 5, 17, 8, 31)


def o1_tx(ctx, n, kind, entry):
    clock = fresh_env(ctx)
    radio, nrf = new_rf24(clock)
    radio.link = ScriptedLink(lambda k: True)
    pl = ctx.int("pl_len", 1, 32)
    dynpd = ctx.int("dynpd", 0, 63)
    ask = ctx.bit("ask_no_ack")
    allow = ctx.bit("allow_ask_no_ack")
    nrf.payload_length = pl
    nrf.dynamic_payloads = dynpd
    nrf.allow_ask_no_ack = allow
    nrf.listen = False
    buf = ctx.bytes("buf", n, mutable=(kind == "bytearray"))
    orig = blist(buf)
    dyn = (dynpd & 1) == 1
    mark = len(radio.log)
    try:
        if entry == "write":
            res = nrf.write(buf, ask)
        elif entry == "send":
            res = nrf.send(buf, ask)
        else:
            res = nrf.send([buf, buf], ask)
    except ValueError:
        ctx.check(s_and(dyn, n == 0 or n > 32), "ValueError only for a dynamic payload of 0 or > 32 bytes")
        ctx.check(len([1 for c, d, *_ in radio.log[mark:] if c in (0xA0, 0xB0)]) == 0,
                  "nothing reached the radio before the ValueError")
        ctx.check(len(buf) == n and bytes_eq(buf, orig), "caller's buffer untouched")
        ctx.reached()
        return
    ctx.check(s_not(s_and(dyn, n == 0 or n > 32)), "dynamic payload of 0 or > 32 bytes must be rejected")
    tx = [(c, d) for c, d, *_ in radio.log[mark:] if c in (0xA0, 0xB0)]
    want = 2 if entry == "sendlist" else 1
    ctx.check(len(tx) == want, "exactly one payload command per payload")
    if bool(dyn):
        exp = orig
    else:
        exp = pad_trunc(orig, ctx.conc(pl))
    for c, d in tx:
        ctx.check(c == (0xA0 | (ask << 4)), "W_TX_PAYLOAD opcode carries the ask_no_ack bit")
        ctx.check(len(d) == len(exp), "payload has the right length")
        ctx.check(bytes_eq(d, exp), "payload bytes are the padded/truncated/unchanged input")
    ctx.observe("tx", [d for c, d in tx])
    ctx.check(len(buf) == n and bytes_eq(buf, orig), "caller's buffer untouched")
    if entry == "write":
        ctx.check(res == True, "write() reports the payload was loaded")  # noqa: E712
    ctx.reached()


def o2_rx(ctx, count, dynamic, mixed=False):
    clock = fresh_env(ctx)
    radio, nrf = new_rf24(clock)
    if dynamic:
        nrf.dynamic_payloads = True
    else:
        nrf.dynamic_payloads = False
        nrf.payload_length = list(STATIC_LENS)
    if mixed:  # dynamic lengths on pipes 1-5 only; pipe 0 has a static width (its payloads are 5 bytes wide)
        nrf.set_dynamic_payloads(False, 0)
        nrf.set_payload_length(5, 0)
    for p in range(6):
        nrf.open_rx_pipe(p, bytes([0x30 + p, 1, 2, 3, 4]))
    nrf.listen = True
    sent = []
    for i in range(count):
        pipe = ctx.int("pipe%d" % i, 0, 5)
        if mixed:
            pipe = ctx.conc(pipe)
            ln = 5 if pipe == 0 else (1, 32, 7)[i]
        elif dynamic:
            ln = (1, 32, 7)[i]
        else:
            pipe = ctx.conc(pipe)
            ln = STATIC_LENS[pipe]
        data = ctx.bytes("pl%d" % i, ln)
        radio.inject_rx(pipe, blist(data))
        sent.append((pipe, blist(data)))
    for i, (pipe, data) in enumerate(sent):
        ctx.check(nrf.available() == True, "available() while payloads are queued")  # noqa: E712
        ctx.check(nrf.pipe == pipe, "pipe attribute names the receiving pipe")
        ctx.check(nrf.any() == len(data), "any() is the head payload's length")
        got = nrf.read()
        ctx.check(got is not None and len(got) == len(data), "read() returns a payload of that length")
        ctx.check(bytes_eq(got, data), "read() returns the head payload byte-for-byte")
        ctx.observe("read%d" % i, got)
    ctx.check(nrf.available() == False, "nothing left: every payload was returned exactly once")  # noqa: E712
    ctx.check(nrf.read() is None, "read() on an empty FIFO returns None")
    ctx.reached()


def o3_link(ctx, count, pipe, pl, rate, via, reenter=False, history=False, getters=False):
    dynamic = pl is None
    from circuitpython_nrf24l01.rf24 import RF24
    clock = fresh_env(ctx)
    med = Medium()
    ra, a = new_rf24(clock, "A")
    rb, b = new_rf24(clock, "B")
    med.add(ra)
    med.add(rb)
    chan = ctx.int("channel", 0, 125)
    crc = ctx.int("crc", 0, 2)
    aw = ctx.int("aw", 3, 5)
    ask = ctx.bit("ask_no_ack")
    addr = ctx.bytes("addr", 5)
    base = ctx.bytes("base", 5)
    if history:
        # "configured compatibly" is about the final values: A first had every field on another value
        a.channel = (chan + 1) % 126
        a.data_rate = {1: 2, 2: 250, 250: 2}[rate]
        a.crc = (crc + 1) % 3
        a.address_length = 3 + (aw - 2) % 3
        a.dynamic_payloads = not dynamic
        a.payload_length = 7
    for n in (a, b):
        n.channel = chan
        n.data_rate = rate
        n.crc = crc
        n.address_length = aw
        n.allow_ask_no_ack = True
        if dynamic:
            n.dynamic_payloads = True
        else:
            n.dynamic_payloads = False
            n.payload_length = pl
    awc = ctx.conc(aw)
    if pipe < 2:
        b.open_rx_pipe(pipe, addr[:awc])
        target = blist(addr)[:awc]
    else:
        ctx.assume(addr[0] != base[0])
        b.open_rx_pipe(1, base[:awc])
        b.open_rx_pipe(pipe, addr[:1])
        target = ([addr[0]] + blist(base)[1:])[:awc]
    b.listen = True
    a.listen = False
    from vsym.core import SBytes
    a.open_tx_pipe(SBytes(target) if ctx.symbolic else bytes(target))
    if reenter:
        # the sender also reads on pipe 0 (another address), leaves its `with` block and comes back: the TX address it
        # established must still be the one payloads go to (sent without requesting an ACK: pipe 0 holds the reading address)
        other = ctx.bytes("own_rx0", 5)
        a.open_rx_pipe(0, other)
        a.__exit__()
        a.__enter__()
        a.listen = False
        ask = 1
    if getters:  # both applications read every read-only attribute first: nothing about the link may depend on that
        touch_rf24_getters(a, getters == "down")
        touch_rf24_getters(b, getters == "down")
    lens = [(3, 32, 1)[i] for i in range(count)]
    bufs = [ctx.bytes("msg%d" % i, ln) for i, ln in enumerate(lens)]
    if via == "write4":
        # four uploads while CE stays low: the TX FIFO holds three, the fourth is refused (False) and must not displace anything
        a.ce_pin = False
        extra = ctx.bytes("msg_extra", 2)
        res = [a.write(x, ask, True) for x in bufs]
        ctx.check(a.write(extra, ask, True) == False, "write() answers False when the TX FIFO is full")  # noqa: E712
        a.ce_pin = True
        for _ in range(6):
            a.update()
        a.ce_pin = False
    elif via == "send":
        res = [a.send(x, ask) for x in bufs]
    elif via == "sendlist":
        res = a.send(list(bufs), ask)
    else:
        res = []
        for x in bufs:
            a.ce_pin = False
            res.append(a.write(x, ask))
            a.update()
    for r in res:
        ctx.check(r == True, "send()/write() reports success on a loss-free compatible link")  # noqa: E712
    for i, x in enumerate(bufs):
        exp = blist(x) if dynamic else pad_trunc(blist(x), pl)
        if getters and i == 1:
            touch_rf24_getters(b, getters != "down")
        ctx.check(b.available() == True, "peer has the payload")  # noqa: E712
        ctx.check(b.pipe == pipe, "attributed to the pipe whose address it was sent to")
        got = b.read()
        ctx.check(got is not None and len(got) == len(exp), "peer's read() has the right length")
        ctx.check(bytes_eq(got, exp), "peer's read() returns the payload byte-for-byte")
        ctx.observe("rx%d" % i, got)
    ctx.check(b.available() == False, "exactly once: nothing else arrives")  # noqa: E712
    ctx.check(not ra.unspecified and not rb.unspecified, "no use of radio behaviour the specification leaves open")
    ctx.reached()


def o3_pingpong(ctx, pipe, pl, reply, tx_open_in_rx=False, stale_ack=False):
    """two transceivers: each reads on `pipe` at its own address and transmits to the peer's.  A -> B two payloads; B
    answers (send_only: its RX FIFO is not its business) BEFORE reading them; then both sides read: everything handed to
    send() arrives byte-for-byte, once, in order, in both directions"""
    dynamic = pl is None
    clock = fresh_env(ctx)
    med = Medium()
    ra, a = new_rf24(clock, "A")
    rb, b = new_rf24(clock, "B")
    med.add(ra)
    med.add(rb)
    chan = ctx.int("channel", 0, 125)
    addr_a, addr_b = ctx.bytes("addrA", 5), ctx.bytes("addrB", 5)
    if pipe >= 2:  # pipes 2..5 share bytes 1..4 with pipe 1: the effective address is own first byte + pipe 1's upper bytes
        from vsym.core import SBytes
        base_a, base_b = ctx.bytes("baseA", 5), ctx.bytes("baseB", 5)
        ctx.assume(s_and(addr_a[0] != base_a[0], addr_b[0] != base_b[0]))
        a.open_rx_pipe(1, base_a)
        b.open_rx_pipe(1, base_b)
        own_a, own_b = addr_a[:1], addr_b[:1]
        addr_a = [addr_a[0]] + blist(base_a)[1:]
        addr_b = [addr_b[0]] + blist(base_b)[1:]
        addr_a, addr_b = (SBytes(addr_a), SBytes(addr_b)) if ctx.symbolic else (bytes(addr_a), bytes(addr_b))
    else:
        own_a, own_b = addr_a, addr_b
    ctx.assume(s_not(bytes_eq(blist(addr_a), blist(addr_b))))
    for n, own, peer in ((a, own_a, addr_b), (b, own_b, addr_a)):
        n.channel = chan
        if dynamic:
            n.dynamic_payloads = True
        else:
            n.dynamic_payloads = False
            n.payload_length = pl
        n.open_rx_pipe(pipe, own)
        n.open_tx_pipe(peer)
    if stale_ack:
        # B prepared an ACK payload that nobody will ever fetch (A sends without asking for acknowledgements): when B later
        # transmits, only what it hands to send() may go out
        allow = bool(ctx.choice("allow_ask_no_ack", 2))
        for n in (a, b):
            n.ack = True
            n.allow_ask_no_ack = allow
        b.listen = True
        # (for a pipe nobody transmits to, so that A's payloads are acknowledged plainly)
        ctx.check(b.load_ack(ctx.bytes("stale", 3), pipe % 5 + 1) == True, "load_ack() accepted")  # noqa: E712
    b.listen = True
    a.listen = False
    a.open_tx_pipe(addr_b)  # (pipe 0 carries the reading address while listening: the TX pipe is opened again in TX mode, C08)
    m = [ctx.bytes("m%d" % i, ln) for i, ln in enumerate((3, 32))]
    r = [ctx.bytes("r%d" % i, ln) for i, ln in enumerate((2, 5))]
    res = a.send(list(m))
    ctx.check(res == [True, True], "A's send() reports success on a loss-free compatible link")
    a.listen = True
    ctx.check(b.available() == True, "B sees A's payload")  # noqa: E712
    if tx_open_in_rx:
        b.open_tx_pipe(addr_a)  # (allowed while listening; the role change below comes afterwards)
        b.listen = False
        if pipe == 0 and reply != "none":
            b.open_tx_pipe(addr_a)  # pipe 0 carries the reading address again: the TX pipe is re-opened in TX mode (C08)
    else:
        b.listen = False
        b.open_tx_pipe(addr_a)
    if reply == "none":  # B only visits TX mode (the TX pipe was opened while it listened) and comes back without sending
        res = [True, True]
        r = []
    elif reply == "list":
        res = b.send(list(r), False, 0, True)
    elif reply == "list_kw":
        res = b.send(list(r), send_only=True, force_retry=2)
    else:
        res = [b.send(x, send_only=True) for x in r]
    ctx.check(res == [True, True], "B's send() reports success on a loss-free compatible link")
    b.listen = True
    for name, nrf, bufs in (("B", b, m), ("A", a, r)):
        for i, x in enumerate(bufs):
            exp = blist(x) if dynamic else pad_trunc(blist(x), pl)
            ctx.check(nrf.available() == True, name + " has the payload")  # noqa: E712
            ctx.check(nrf.pipe == pipe, name + ": attributed to the pipe whose address it was sent to")
            got = nrf.read()
            ctx.check(got is not None and len(got) == len(exp), name + ": read() has the right length")
            ctx.check(bytes_eq(got, exp), name + ": read() returns the payload byte-for-byte")
        ctx.check(nrf.available() == False, name + ": exactly once: nothing else arrives")  # noqa: E712
    # third leg: A transmits again, B (back in RX mode) still hears it on the same pipe
    a.listen = False
    a.open_tx_pipe(addr_b)
    m3 = ctx.bytes("m3", 4)
    ctx.check(a.send(m3) == True, "A's second send() succeeds")  # noqa: E712
    exp = blist(m3) if dynamic else pad_trunc(blist(m3), pl)
    ctx.check(b.available() == True and b.pipe == pipe, "B has A's second message on the same pipe")  # noqa: E712
    got = b.read()
    ctx.check(got is not None and len(got) == len(exp) and bool(bytes_eq(got, exp)), "B: read() returns it byte-for-byte")
    ctx.check(not ra.unspecified and not rb.unspecified, "no use of radio behaviour the specification leaves open")
    ctx.reached()


def jobs(tier):
    out = []
    lens = (0, 1, 2, 31, 32, 33, 40) if tier == "quick" else range(0, 41)
    for n in lens:
        for kind in ("bytes", "bytearray"):
            for entry in ("write", "send", "sendlist"):
                if tier == "quick" and entry == "sendlist" and n not in (1, 33):
                    continue
                out.append(Job("O1-tx-framing", o1_tx, dict(n=n, kind=kind, entry=entry), cost=2 + (n < 32)))
    for count in ((1, 3) if tier == "quick" else (1, 2, 3)):
        for dynamic in (True, False):
            out.append(Job("O2-rx-side", o2_rx, dict(count=count, dynamic=dynamic), cost=count * 3))
        out.append(Job("O2-rx-side-mixed-per-pipe-modes", o2_rx, dict(count=count, dynamic=True, mixed=True), cost=count * 6))
    if tier == "quick":
        combos = [(1, p, pl, 1, "send") for p in range(6) for pl in (None, 1, 5, 32)]
        combos += [(3, 1, None, 2, "sendlist"), (2, 0, 4, 250, "write"), (3, 4, 2, 1, "send"), (3, 5, 32, 2, "sendlist")]
    else:
        combos = [(c, p, pl, r, v) for c in (1, 2, 3) for p in range(6) for pl in [None] + list(range(1, 33))
                  for r in (1, 2, 250) for v in ("send", "sendlist", "write")
                  if not (c == 1 and v == "sendlist") and (c == 1 or pl in (None, 1, 3, 32))
                  and (r == 1 or pl in (None, 1, 32))]
    for c, p, pl, r, v in combos:
        out.append(Job("O3-link", o3_link, dict(count=c, pipe=p, pl=pl, rate=r, via=v), cost=5 * c))
    for p, pl in ((1, None), (0, 3)):
        out.append(Job("O3-link-four-uploads", o3_link, dict(count=3, pipe=p, pl=pl, rate=1, via="write4"), cost=10))
    for c, p, pl, r, v, order in ((3, 1, None, 1, "send", "up"), (2, 4, 5, 250, "sendlist", "down"), (2, 0, 32, 2, "write", "up"), (3, 5, 2, 1, "send", "down"),
                                  (2, 2, None, 2, "send", "down"), (2, 3, 7, 1, "send", "up")):
        out.append(Job("O3-link-after-reading-every-getter", o3_link, dict(count=c, pipe=p, pl=pl, rate=r, via=v, getters=order), cost=8 * c))
    for p, pl, r in ((1, None, 1), (4, 5, 250), (0, 32, 2)):
        out.append(Job("O3-link-after-a-configuration-history", o3_link, dict(count=1, pipe=p, pl=pl, rate=r, via="send", history=True), cost=6))
    for p, pl in ((1, None), (3, 5), (0, 32)):
        out.append(Job("O3-link-after-context-re-entry", o3_link, dict(count=2, pipe=p, pl=pl, rate=1, via="send", reenter=True), cost=10))
    for pipe in ((0, 1, 5) if tier == "quick" else range(6)):
        for pl in ((None, 4) if tier == "quick" else (None, 1, 4, 32)):
            for reply in ("list", "single") if tier == "quick" else ("list", "list_kw", "single"):
                out.append(Job("O3-link-both-directions", o3_pingpong, dict(pipe=pipe, pl=pl, reply=reply), cost=12))
        out.append(Job("O3-link-both-directions", o3_pingpong, dict(pipe=pipe, pl=None, reply="single", tx_open_in_rx=True), cost=12))
        out.append(Job("O3-link-both-directions", o3_pingpong, dict(pipe=pipe, pl=4, reply="none", tx_open_in_rx=True), cost=12))
    out.append(Job("O3-link-both-directions-stale-ack-payload", o3_pingpong, dict(pipe=1, pl=None, reply="single", stale_ack=True), cost=12))
    return out


META = {
    "bounds": {
        "quick": "O1: len(buf) in {0,1,2,31,32,33,40}, bytes and bytearray, write/send/send(list of 2); symbolic: all "
                 "payload bytes, payload_length 1..32, DYNPD value 0..63, ask_no_ack, allow_ask_no_ack. O2: 1 or 3 queued "
                 "payloads, symbolic pipes 0..5 and contents, dynamic (lengths 1,32,7) or static (per-pipe widths "
                 "1,32,5,17,8,31). O3: 1-3 payloads (lengths 3,32,1) over two real RF24 objects; symbolic channel 0..125, "
                 "crc 0..2, address width 3..5, 10 address bytes, ask_no_ack, contents; enumerated: "
                 "receiving pipe 0..5, data rate, dynamic or static width in {1,5,32}, send/send(list)/write",
        "thorough": "as quick with every length 0..40 in O1, 1..3 payloads in O2, and in O3 every static width 1..32 per "
                    "pipe for single payloads plus pipe x {dynamic, 1, 3, 32} x data rate x entry point for 2-3 payloads",
    },
    "outside": ["payloads longer than 40 bytes", "RF-level compatibility (the medium treats equal register fields as "
                "compatible)", "packet loss (covered by C02)", "more than 3 payloads in flight (the FIFO depth)",
                "nRF24L01 non-plus variant"],
    "assumptions": ["SimRadio: SPI-level nRF24L01+ model from the product specification (env/simradio.py)",
                    "Medium: loss-free, equal register fields = compatible radios (env/medium.py)",
                    "virtual clock with a 1 ms tick (C01 has no timing clause)",
                    "for receiving pipes 2-5 the first address byte differs from pipe 1's (otherwise the attribution "
                    "is ambiguous on the hardware itself)"],
}

if __name__ == "__main__":
    import sys
    sys.exit(main(sys.modules[__name__]))
