"""C03 - setters program the radio with the documented encoding; getters agree.

A ghost register file (the oracle, written from the nRF24L01+ register map and the library's
docs/core_api/*.rst) is updated by "attribute := value" next to the real driver; after every
call of a symbolic history the radio's complete configuration must equal the ghost (so the
owned field has the documented encoding *and nothing else moved*), every byte written by a
W_REGISTER must be a legal value of that register, documented rejections must raise the
documented exception and leave the radio untouched; at the end of the history the cache is
compared with the radio through the public API (`__enter__` must not change any register)
and every getter must return the value in effect.
"""
from checks.common import *  # noqa
from env.simradio import CONFIG_REGS, ADDR_REGS

PROPERTY = "C03"
BIG = 1 << 16


def clamp(x, lo, hi):
    return s_ite(x < lo, lo, s_ite(x > hi, hi, x))


class Ghost:
    def __init__(self, radio):
        self.r = {k: radio.reg[k] for k in CONFIG_REGS}
        self.a = {k: list(radio.addr[k]) for k in ADDR_REGS}
        self.user_p0 = None  # address the user last opened pipe 0 with (list) / None = closed
        self.ce = False

    def copy_from(self, o):
        self.r, self.a = dict(o.r), {k: list(v) for k, v in o.a.items()}
        self.user_p0, self.ce = o.user_p0, o.ce


def compare(ctx, radio, g, what):
    for k in CONFIG_REGS:
        ctx.check(radio.reg[k] == g.r[k], "%s: register 0x%02X has the documented value and no other field moved" % (what, k))
    for k in ADDR_REGS:
        for i in range(5):
            ctx.check(radio.addr[k][i] == g.a[k][i], "%s: address register 0x%02X byte %d" % (what, k, i))


def legal_writes(ctx, radio, mark, what):
    for cmd, data, _ce, _t in radio.log[mark:]:
        if not 0x20 <= cmd < 0x40 or not data:
            continue
        reg, v = cmd & 0x1F, data[0]
        if reg == 0:
            ok = (v & 0x80) == 0
        elif reg in (1, 2, 0x1C):
            ok = (v & 0xC0) == 0
        elif reg == 3:
            ok = s_and(v >= 0, v <= 3)
        elif reg == 5:
            ok = s_and(v >= 0, v <= 125)
        elif reg == 6:
            ok = (v & 0x40) == 0
        elif reg == 7:
            ok = (v & 0x8F) == 0
        elif 0x11 <= reg <= 0x16:
            ok = s_and(v >= 1, v <= 32)
        elif reg == 0x1D:
            ok = (v & 0xF8) == 0
        elif reg in (8, 9, 0x17):
            ok = False  # read-only registers
        else:
            ok = True
        ctx.check(ok, "%s: value written to register 0x%02X is legal (no reserved bit, in range)" % (what, reg))


# ------------------------------------------------------------------------------ the alphabet
# every entry: gen(ctx, tag) -> args ; do(nrf, args) ; spec(g, args) -> (raise_ok, noraise_ok, exc, apply)
def _always(apply):
    return lambda g, a: (False, True, None, lambda: apply(g, a))


def sp_channel(g, a):
    valid = s_and(a >= 0, a <= 125)

    def ap():
        g.r[5] = a
    return s_not(valid), valid, ValueError, ap


def sp_data_rate(g, a):
    valid = s_or(a == 1, a == 2, a == 250)

    def ap():
        enc = s_ite(a == 1, 0, s_ite(a == 2, 8, 0x20))
        g.r[6] = (g.r[6] & 0xD7) | enc
    return s_not(valid), valid, ValueError, ap


def _pa(g, p, lna):
    valid = s_or(p == -18, p == -12, p == -6, p == 0)

    def ap():
        # documented: invalid input invokes the default of 0 dBm with LNA enabled
        lvl = s_ite(valid, s_ite(p == -18, 0, s_ite(p == -12, 2, s_ite(p == -6, 4, 6))), 6)
        g.r[6] = (g.r[6] & 0xF8) | lvl | s_ite(valid, lna, 1)
    # docs say "default", the implementation rejects: both are accepted for invalid input
    return s_not(valid), True, ValueError, ap


def sp_crc(g, a):
    def ap():
        # 0..2 exact; above -> 2; negative: "clamped to [0, 2]" (docs) or abs() first (code): the
        # result must be a legal encoding, which of the two is left open
        n = s_ite(a > 2, 2, a)
        enc = s_ite(n == 0, 0, s_ite(n == 1, 8, 0x0C))
        g.r[0] = (g.r[0] & 0x73) | enc
    return False, True, None, ap


def sp_addr_len(g, a):
    def ap():
        g.r[3] = s_ite(s_and(a >= 3, a <= 5), a - 2, 0)
    return False, True, None, ap


def sp_arc(g, a):
    def ap():
        g.r[4] = (g.r[4] & 0xF0) | clamp(a, 0, 15)
    return False, True, None, ap


def _ard_nibble(d):
    return (clamp(d, 250, 4000) - 250) // 250


def sp_ard(g, a):
    def ap():
        g.r[4] = (g.r[4] & 0x0F) | (_ard_nibble(a) << 4)
    return False, True, None, ap


def sp_retries(g, a):
    def ap():
        g.r[4] = (_ard_nibble(a[0]) << 4) | clamp(a[1], 0, 15)
    return False, True, None, ap


def _bits_from_list(old, vals):
    v = old
    for i, x in enumerate(vals[:6]):
        bit = s_ite(x != 0, 1, 0) if not isinstance(x, bool) else int(x)
        keep = (x < 0) if not isinstance(x, bool) else False
        v = s_ite(keep, v, (v & ~(1 << i)) | (bit << i))
    return v


def sp_auto_ack(g, a):
    def ap():
        if isinstance(a, bool):
            g.r[1] = 0x3F if a else 0
        elif isinstance(a, list):
            g.r[1] = _bits_from_list(g.r[1], a)
        else:
            g.r[1] = a & 0x3F
    return False, True, None, ap


def sp_set_auto_ack(g, a):
    en, pipe = a
    if pipe is None:
        return sp_auto_ack(g, bool(en))
    valid = s_and(pipe >= 0, pipe <= 5)

    def ap():
        g.r[1] = (g.r[1] & ~(1 << pipe)) | (int(en) << pipe)
    return s_not(valid), valid, IndexError, ap


def _set_dynpd(g, v):
    g.r[0x1C] = v
    g.r[0x1D] = (g.r[0x1D] & 3) | s_ite(v != 0, 4, 0)


def sp_dyn(g, a):
    def ap():
        if isinstance(a, bool):
            _set_dynpd(g, 0x3F if a else 0)
        elif isinstance(a, list):
            _set_dynpd(g, _bits_from_list(g.r[0x1C], a))
        else:
            _set_dynpd(g, a & 0x3F)
    return False, True, None, ap


def sp_set_dyn(g, a):
    en, pipe = a
    if pipe is None:
        return sp_dyn(g, bool(en))
    valid = s_and(pipe >= 0, pipe <= 5)

    def ap():
        _set_dynpd(g, (g.r[0x1C] & ~(1 << pipe)) | (int(en) << pipe))
    return s_not(valid), valid, IndexError, ap


def sp_pl(g, a):
    def ap():
        if isinstance(a, list):
            for i, x in enumerate(a[:6]):
                g.r[0x11 + i] = s_ite(x <= 0, g.r[0x11 + i], clamp(x, 1, 32))
        else:
            for i in range(6):
                g.r[0x11 + i] = clamp(a, 1, 32)
    return False, True, None, ap


def sp_set_pl(g, a):
    ln, pipe = a
    if pipe is None:
        return sp_pl(g, ln)
    valid = s_and(pipe >= 0, pipe <= 5)

    def ap():
        for i in range(6):
            g.r[0x11 + i] = s_ite(pipe == i, clamp(ln, 1, 32), g.r[0x11 + i])
    return s_not(valid), valid, IndexError, ap


def sp_ack(g, a):
    def ap():
        if a:
            g.r[1] = g.r[1] | 1
            g.r[0x1C] = g.r[0x1C] | 1
            g.r[0x1D] = (g.r[0x1D] & 1) | 6
        else:
            g.r[0x1D] = g.r[0x1D] & 5
    return False, True, None, ap


def sp_ask(g, a):
    def ap():
        g.r[0x1D] = (g.r[0x1D] & 6) | int(a)
    return False, True, None, ap


def sp_irq(g, a):
    def ap():
        g.r[0] = (g.r[0] & 0x0F) | ((1 - a[0]) << 6) | ((1 - a[1]) << 5) | ((1 - a[2]) << 4)
    return False, True, None, ap


def sp_power(g, a):
    def ap():
        g.r[0] = (g.r[0] & 0x7D) | (int(a) << 1)
    return False, True, None, ap


def _listen(g, rx):
    g.r[0] = (g.r[0] & 0xFC) | 2 | int(rx)
    if rx:
        g.ce = True
        if g.user_p0 is not None:
            g.a[0x0A][:len(g.user_p0)] = g.user_p0
        else:
            g.r[2] = g.r[2] & 0x3E
    else:
        g.ce = False
        g.r[2] = s_ite((g.r[1] & 1) != 0, g.r[2] | 1, g.r[2])


def sp_listen(g, a):
    return False, True, None, lambda: _listen(g, a)


def sp_open_rx(g, a):
    pipe, addr = a
    valid = s_and(pipe >= 0, pipe <= 5)
    if len(addr) == 0:
        return True, False, (ValueError, IndexError), lambda: None

    def ap():
        for p in range(6):
            hit = pipe == p
            if p < 2:
                reg = 0x0A + p
                for i, b in enumerate(blist(addr)[:5]):
                    g.a[reg][i] = s_ite(hit, b, g.a[reg][i])
            else:
                g.r[0x0A + p] = s_ite(hit, blist(addr)[0], g.r[0x0A + p])
            g.r[2] = s_ite(hit, g.r[2] | (1 << p), g.r[2])
        if bool(pipe == 0):
            g.user_p0 = blist(addr)[:5]
    return s_not(valid), valid, IndexError, ap


def sp_close_rx(g, a):
    valid = s_and(a >= 0, a <= 5)

    def ap():
        for p in range(6):
            g.r[2] = s_ite(a == p, g.r[2] & ~(1 << p), g.r[2])
        if bool(a == 0):
            g.user_p0 = None
    return s_not(valid), valid, IndexError, ap


def sp_open_tx(g, a):
    def ap():
        addr = blist(a)[:5]
        aa0 = (g.r[1] & 1) != 0
        for i, b in enumerate(addr):
            g.a[0x10][i] = b
        # "RX pipe 0 is appropriated with the TX address when auto_ack is enabled for data pipe 0" (basic_api.rst):
        # the complete resulting TX address, and the pipe is enabled when the radio is in TX mode (ACK reception)
        for i in range(5):
            g.a[0x0A][i] = s_ite(aa0, g.a[0x10][i], g.a[0x0A][i])
        g.r[2] = s_ite(s_and(aa0, (g.r[0] & 1) == 0), g.r[2] | 1, g.r[2])
    return False, True, None, ap


def sp_carrier(g, a):
    def ap():
        if a:
            g.r[0] = (g.r[0] & 0x7D) | 2
            _listen(g, False)
            g.r[6] = g.r[6] | 0x90
            g.ce = True
        else:
            g.ce = False
            g.r[0] = g.r[0] & 0x7D
            g.r[6] = g.r[6] & 0x6F
    return False, True, None, ap


def g_int(lo, hi):
    return lambda ctx, tag: ctx.int(tag, lo, hi)


def g_const(v):
    return lambda ctx, tag: v


def g_list(n_sym, total, lo, hi):
    def gen(ctx, tag):
        fixed = [1, 0, -1, 2, 1, 0, 1]
        return [ctx.int("%s_%d" % (tag, i), lo, hi) for i in range(n_sym)] + fixed[n_sym:total]
    return gen


def g_addr(n):
    return lambda ctx, tag: ctx.bytes(tag, n)


def g_pair(g1, g2):
    return lambda ctx, tag: (g1(ctx, tag + "a"), g2(ctx, tag + "b"))


def g_triple(ctx, tag):
    return tuple(ctx.choice("%s_%d" % (tag, i), 2) for i in range(3))


def setattr_(name):
    return lambda nrf, a: setattr(nrf, name, a)


CALLS = {
    "channel": (g_int(-BIG, BIG), setattr_("channel"), sp_channel),
    "data_rate": (g_int(-3, 252), setattr_("data_rate"), sp_data_rate),
    "pa_level": (g_int(-40, 20), setattr_("pa_level"), lambda g, a: _pa(g, a, 1)),
    "pa_level_tuple": (g_pair(g_int(-40, 20), lambda c, t: c.choice(t, 2)),
                       lambda nrf, a: setattr(nrf, "pa_level", (a[0], bool(a[1]))), lambda g, a: _pa(g, a[0], a[1])),
    "crc": (g_int(0, BIG), setattr_("crc"), sp_crc),
    "address_length": (g_int(-BIG, BIG), setattr_("address_length"), sp_addr_len),
    "arc": (g_int(-BIG, BIG), setattr_("arc"), sp_arc),
    "ard": (g_int(-BIG, BIG), setattr_("ard"), sp_ard),
    "set_auto_retries": (g_pair(g_int(-BIG, BIG), g_int(-BIG, BIG)), lambda nrf, a: nrf.set_auto_retries(*a), sp_retries),
    "auto_ack_true": (g_const(True), setattr_("auto_ack"), sp_auto_ack),
    "auto_ack_false": (g_const(False), setattr_("auto_ack"), sp_auto_ack),
    "auto_ack_int": (g_int(0, 255), setattr_("auto_ack"), sp_auto_ack),
    "auto_ack_list3": (g_list(3, 3, -2, 2), setattr_("auto_ack"), sp_auto_ack),
    "auto_ack_list7": (g_list(2, 7, -2, 2), setattr_("auto_ack"), sp_auto_ack),
    "auto_ack_list0": (g_const([]), setattr_("auto_ack"), sp_auto_ack),
    "set_auto_ack_on": (g_pair(g_const(True), g_int(-3, 8)), lambda nrf, a: nrf.set_auto_ack(*a), sp_set_auto_ack),
    "set_auto_ack_off": (g_pair(g_const(False), g_int(-3, 8)), lambda nrf, a: nrf.set_auto_ack(*a), sp_set_auto_ack),
    "set_auto_ack_none": (g_pair(g_const(False), g_const(None)), lambda nrf, a: nrf.set_auto_ack(*a), sp_set_auto_ack),
    "dyn_true": (g_const(True), setattr_("dynamic_payloads"), sp_dyn),
    "dyn_false": (g_const(False), setattr_("dynamic_payloads"), sp_dyn),
    "dyn_int": (g_int(0, 255), setattr_("dynamic_payloads"), sp_dyn),
    "dyn_list3": (g_list(3, 3, -2, 2), setattr_("dynamic_payloads"), sp_dyn),
    "dyn_list7": (g_list(2, 7, -2, 2), setattr_("dynamic_payloads"), sp_dyn),
    "set_dyn_on": (g_pair(g_const(True), g_int(-3, 8)), lambda nrf, a: nrf.set_dynamic_payloads(*a), sp_set_dyn),
    "set_dyn_off": (g_pair(g_const(False), g_int(-3, 8)), lambda nrf, a: nrf.set_dynamic_payloads(*a), sp_set_dyn),
    "set_dyn_none": (g_pair(g_const(True), g_const(None)), lambda nrf, a: nrf.set_dynamic_payloads(*a), sp_set_dyn),
    "payload_length": (g_int(-BIG, BIG), setattr_("payload_length"), sp_pl),
    "payload_length_list3": (g_list(3, 3, -3, 40), setattr_("payload_length"), sp_pl),
    "payload_length_list7": (g_list(2, 7, -3, 40), setattr_("payload_length"), sp_pl),
    "set_payload_length": (g_pair(g_int(-300, 300), g_int(-3, 8)), lambda nrf, a: nrf.set_payload_length(*a), sp_set_pl),
    "set_payload_length_none": (g_pair(g_int(-300, 300), g_const(None)), lambda nrf, a: nrf.set_payload_length(*a), sp_set_pl),
    "ack_on": (g_const(True), setattr_("ack"), sp_ack),
    "ack_off": (g_const(False), setattr_("ack"), sp_ack),
    "ask_on": (g_const(True), setattr_("allow_ask_no_ack"), sp_ask),
    "ask_off": (g_const(False), setattr_("allow_ask_no_ack"), sp_ask),
    "interrupt_config": (g_triple, lambda nrf, a: nrf.interrupt_config(bool(a[0]), bool(a[1]), bool(a[2])), sp_irq),
    "power_on": (g_const(True), setattr_("power"), sp_power),
    "power_off": (g_const(False), setattr_("power"), sp_power),
    "listen_on": (g_const(True), setattr_("listen"), sp_listen),
    "listen_off": (g_const(False), setattr_("listen"), sp_listen),
    "open_rx_pipe5": (g_pair(g_int(-3, 8), g_addr(5)), lambda nrf, a: nrf.open_rx_pipe(*a), sp_open_rx),
    "open_rx_pipe3": (g_pair(g_int(-3, 8), g_addr(3)), lambda nrf, a: nrf.open_rx_pipe(*a), sp_open_rx),
    "open_rx_pipe1": (g_pair(g_int(0, 5), g_addr(1)), lambda nrf, a: nrf.open_rx_pipe(*a), sp_open_rx),
    "open_rx_pipe0": (g_pair(g_int(-3, 8), g_addr(0)), lambda nrf, a: nrf.open_rx_pipe(*a), sp_open_rx),
    "close_rx_pipe": (g_int(-3, 8), lambda nrf, a: nrf.close_rx_pipe(a), sp_close_rx),
    "open_tx_pipe5": (g_addr(5), lambda nrf, a: nrf.open_tx_pipe(a), sp_open_tx),
    "open_tx_pipe3": (g_addr(3), lambda nrf, a: nrf.open_tx_pipe(a), sp_open_tx),
    "start_carrier": (g_const(True), lambda nrf, a: nrf.start_carrier_wave(), sp_carrier),
    "stop_carrier": (g_const(False), lambda nrf, a: nrf.stop_carrier_wave(), sp_carrier),
}
NEG_CRC = ("crc_negative", (g_int(-BIG, -1), setattr_("crc"), None))

GROUPS = {  # calls that share a register (pairs / triples are taken inside a group)
    "CONFIG": ["crc", "interrupt_config", "power_on", "power_off", "listen_on", "listen_off", "start_carrier", "stop_carrier"],
    "RF_SETUP": ["data_rate", "pa_level", "pa_level_tuple", "start_carrier", "stop_carrier"],
    "RETR": ["arc", "ard", "set_auto_retries"],
    "FEATURE": ["dyn_true", "dyn_false", "dyn_int", "dyn_list3", "set_dyn_on", "set_dyn_off", "ack_on", "ack_off",
                "ask_on", "ask_off", "auto_ack_false", "auto_ack_int", "set_auto_ack_off", "listen_off"],
    "PIPES": ["open_rx_pipe5", "open_rx_pipe3", "open_rx_pipe1", "close_rx_pipe", "open_tx_pipe5", "open_tx_pipe3",
              "listen_on", "listen_off", "auto_ack_false", "auto_ack_true", "set_auto_ack_off", "address_length"],
    "PW": ["payload_length", "payload_length_list3", "set_payload_length", "set_payload_length_none"],
}


def getters(ctx, radio, nrf, g):
    """every getter returns the value in effect (the ghost, which equals the radio here)"""
    r = g.r
    ctx.check(nrf.channel == r[5], "getter channel")
    dr = r[6] & 0x28
    ctx.check(nrf.data_rate == s_ite(dr == 0, 1, s_ite(dr == 8, 2, 250)), "getter data_rate")
    ctx.check(nrf.pa_level == (3 - ((r[6] & 6) >> 1)) * -6, "getter pa_level")
    ctx.check(nrf.is_lna_enabled == ((r[6] & 1) != 0), "getter is_lna_enabled")
    eff = s_ite(r[1] != 0, s_ite((r[0] & 4) != 0, 2, 1),
                s_ite((r[0] & 8) == 0, 0, s_ite((r[0] & 4) != 0, 2, 1)))
    ctx.check(nrf.crc == eff, "getter crc (forced on by auto-ack)")
    ctx.check(nrf.address_length == r[3] + 2, "getter address_length")
    ctx.check(nrf.arc == (r[4] & 0x0F), "getter arc")
    ctx.check(nrf.ard == ((r[4] >> 4) & 0x0F) * 250 + 250, "getter ard")
    ar = nrf.get_auto_retries()
    ctx.check(s_and(ar[0] == ((r[4] >> 4) & 0x0F) * 250 + 250, ar[1] == (r[4] & 0x0F)), "getter get_auto_retries")
    ctx.check(nrf.auto_ack == r[1], "getter auto_ack")
    ctx.check(nrf.dynamic_payloads == r[0x1C], "getter dynamic_payloads")
    ctx.check(nrf.payload_length == r[0x11], "getter payload_length")
    for p in range(6):
        ctx.check(nrf.get_auto_ack(p) == (((r[1] >> p) & 1) != 0), "getter get_auto_ack")
        ctx.check(nrf.get_dynamic_payloads(p) == (((r[0x1C] >> p) & 1) != 0), "getter get_dynamic_payloads")
        ctx.check(nrf.get_payload_length(p) == r[0x11 + p], "getter get_payload_length")
    ctx.check(nrf.ack == s_and((r[0x1D] & 6) == 6, (r[1] & r[0x1C] & 1) != 0), "getter ack")
    ctx.check(nrf.allow_ask_no_ack == ((r[0x1D] & 1) != 0), "getter allow_ask_no_ack")
    ctx.check(nrf.power == ((r[0] & 2) != 0), "getter power")
    ctx.check(nrf.listen == ((r[0] & 3) == 3), "getter listen")
    for exc_call, et in ((lambda: nrf.get_auto_ack(6), IndexError), (lambda: nrf.get_dynamic_payloads(-1), IndexError),
                         (lambda: nrf.get_payload_length(6), IndexError), (lambda: nrf.get_payload_length(-1), IndexError)):
        try:
            exc_call()
            ctx.check(False, "getter with a pipe number outside 0..5 raises IndexError")
        except et:
            pass
    aw = 5
    ctx.check(bytes_eq(nrf.address(), g.a[0x10]), "getter address() = TX address")
    ctx.check(bytes_eq(nrf.address(0), g.a[0x0A]), "getter address(0)")
    ctx.check(bytes_eq(nrf.address(1), g.a[0x0B]), "getter address(1)")
    for p in range(2, 6):
        ctx.check(bytes_eq(nrf.address(p), [r[0x0A + p]] + g.a[0x0B][1:]), "getter address(2..5)")


class FixedArgs:
    """argument source for the steps of a deep history that are NOT symbolic: the same generators, but every request for a
    symbolic value is answered with a concrete one drawn (boundary-biased, reproducibly from the tag) out of the same domain"""
    SPECIAL = (0, 1, 2, 3, 5, 6, 15, 16, 31, 32, 33, 76, 125, 126, 250, 251, 499, 500, 750, 3999, 4000, 4001, 255, 256, -1, -6, -12, -18)

    def __init__(self, ctx, seed):
        self.ctx, self.seed = ctx, seed

    def _rng(self, name):
        import random
        return random.Random("%s/%s" % (self.seed, name))

    def int(self, name, lo, hi):
        r = self._rng(name)
        k = r.random()
        if k < 0.4:
            c = [v for v in self.SPECIAL if lo <= v <= hi] + [lo, hi]
            return r.choice(c)
        if k < 0.8:
            return r.randint(max(lo, -4), max(max(lo, -4), min(hi, 40)))
        return r.randint(lo, hi)

    def bytes(self, name, n, mutable=False):
        r = self._rng(name)
        v = [r.choice((0, 1, 0xE7, 0xC2, 0xFF, r.randint(0, 255))) for _ in range(n)]
        return bytearray(v) if mutable else bytes(v)

    def choice(self, name, n):
        return self._rng(name).randrange(n)

    def bool(self, name):
        return self._rng(name).random() < 0.5

    def __getattr__(self, a):
        return getattr(self.ctx, a)


def h_history(ctx, calls, pre, sym_at=None, seed=0):
    fixed = FixedArgs(ctx, seed)
    clock = fresh_env(ctx)
    radio = SimRadio(clock)
    if pre == "sym":
        sym_registers(ctx, radio)
    radio, nrf = new_rf24(clock, radio=radio)
    legal_writes(ctx, radio, 0, "RF24()")
    g = Ghost(radio)
    for step, name in enumerate(calls):
        gen, do, spec = CALLS[name] if name != "crc_negative" else NEG_CRC[1]
        args = gen(ctx if sym_at is None or step in sym_at else fixed, "%s%d" % (name, step))
        before = Ghost(radio)
        before.copy_from(g)
        mark = len(radio.log)
        what = "%s#%d" % (name, step)
        if spec is None:  # crc = negative: only legality and locality are demanded
            do(nrf, args)
            legal_writes(ctx, radio, mark, what)
            enc = radio.reg[0] & 0x0C
            ctx.check(s_or(enc == 0, enc == 8, enc == 0x0C), what + ": CONFIG holds a legal CRC encoding")
            g.r[0] = (g.r[0] & 0x73) | enc
            compare(ctx, radio, g, what)
            continue
        raise_ok, noraise_ok, exc, apply = spec(g, args)
        try:
            do(nrf, args)
            raised = None
        except (ValueError, IndexError) as e:
            raised = e
        if raised is not None:
            ctx.check(raise_ok, what + ": raises only for input documented as rejected")
            ctx.check(exc is not None and isinstance(raised, exc), what + ": raises the documented exception type")
            g.copy_from(before)
            compare(ctx, radio, g, what + " (rejected: radio untouched)")
            ctx.check(len([1 for c, d, *_ in radio.log[mark:] if 0x20 <= c < 0x40 or c >= 0xA0]) == 0,
                      what + ": nothing written before the rejection")
        else:
            ctx.check(noraise_ok, what + ": input documented as rejected must raise")
            apply()
            legal_writes(ctx, radio, mark, what)
            compare(ctx, radio, g, what)
            if g.ce is not None and name in ("listen_on", "listen_off", "start_carrier", "stop_carrier"):
                ctx.check(radio.ce == g.ce, what + ": CE level")
        ctx.observe(what, [radio.reg[k] for k in CONFIG_REGS])
    # cache == radio, observed through the public API: entering `with` changes no register
    snap = radio.config_snapshot()
    mark = len(radio.log)
    nrf.__enter__()
    legal_writes(ctx, radio, mark, "__enter__")
    after = radio.config_snapshot()
    for k in snap:
        a, b = snap[k], after[k]
        if k == 0:
            a, b = a | 2, b | 2
        ctx.check(a == b, "driver's cached configuration equals the radio (register %s unchanged by __enter__)" % (k,))
    g.r[0] = g.r[0] | 2
    getters(ctx, radio, nrf, g)
    ctx.check(not radio.unspecified, "no use of radio behaviour the specification leaves open")
    ctx.reached()


def jobs(tier):
    out = []
    names = list(CALLS)
    seqs = [(n,) for n in names] + [("crc_negative",)]
    pairs = set()
    for grp in GROUPS.values():
        for a in grp:
            for b in grp:
                pairs.add((a, b))
    if tier == "thorough":
        pairs = {(a, b) for a in names for b in names}
    seqs += sorted(pairs)
    triples = [("open_rx_pipe5", "open_tx_pipe5", "listen_on"), ("open_rx_pipe5", "listen_off", "open_tx_pipe5"),
               ("ack_on", "auto_ack_false", "dyn_false"), ("listen_on", "close_rx_pipe", "listen_off"),
               ("dyn_false", "ack_on", "ack_off"), ("power_off", "listen_on", "interrupt_config")]
    if tier == "thorough":
        for grp in ("PIPES", "FEATURE", "CONFIG"):
            g = GROUPS[grp]
            triples += [(a, b, c) for a in g for b in g for c in g]
    seqs += triples
    # deeper histories: calls drawn at random (VERIF_SEED) from the alphabet, arguments still symbolic
    import os
    import random
    rng = random.Random(int(os.environ.get("VERIF_SEED", "0") or 0) * 7919 + (1 if tier == "quick" else 2))
    cheap = [n for n in names if "list" not in n and n not in ("open_rx_pipe0",)]
    def weight(n):  # measured single-call fan-out (paths) - keeps every drawn history inside the path budget whatever the seed
        return (21 if n.startswith("open_rx_pipe") else 15 if n == "interrupt_config" else 8 if "list" in n else
                4 if n in ("close_rx_pipe", "data_rate") else 3 if n in ("address_length", "channel", "crc") else 2 if n.endswith("_int") else 1)
    for _ in range(24 if tier == "quick" else 200):
        while True:
            cand = tuple(rng.choice(cheap) for _ in range(5 if tier == "quick" else 6))
            prod = 1
            for n in cand:
                prod *= weight(n)
            if prod <= (2000 if tier == "quick" else 10000):
                break
        seqs.append(cand)
    for s in seqs:
        out.append(Job("history", h_history, dict(calls=list(s), pre="por"), cost=len(s) ** 2, max_paths=(20000 if tier == "quick" else 40000),
                       shards=(1 if len(s) < 5 else 4 if tier == "quick" else 8)))
    # deep histories (the statement's "random to depth ~40"): 40 calls drawn at random from the whole alphabet; the arguments of
    # `k` of them stay symbolic (the solver decides over all their values in that context), the others are drawn from the same
    # domains, boundary-biased; the ghost, the legality of every write, the rejections, cache = radio and the getters as always
    seed0 = int(os.environ.get("VERIF_SEED", "0") or 0)
    for i in range(48 if tier == "quick" else 600):
        depth, k = (40, 3) if tier == "quick" else (40, 4)
        while True:
            cand = [rng.choice(names) for _ in range(depth)]
            at = sorted(rng.sample(range(depth), k))
            prod = 1
            for j in at:
                prod *= weight(cand[j])
            if prod <= 1500 and not any("list" in cand[j] for j in at):
                break
        out.append(Job("deep-history", h_history, dict(calls=cand, pre="por", sym_at=at, seed=seed0 * 1000 + i), cost=60,
                       max_paths=20000))
    for n in names:
        out.append(Job("history-symbolic-prestate", h_history, dict(calls=[n], pre="sym"), cost=2))
    return out


META = {
    "bounds": {
        "quick": "every call of the 49-call alphabet alone (from the power-on-reset radio and from a radio with arbitrary "
                 "symbolic register contents before RF24() is constructed), every ordered pair of calls that share a register "
                 "(6 groups), 6 triples, 24 random histories of depth 5 (drawn with VERIF_SEED; arguments symbolic) and 48 deep histories of depth 40 (calls drawn from the whole alphabet; the arguments of 3 of the 40 calls symbolic, the others drawn boundary-biased from the same domains); integer arguments symbolic over [-65536, 65536] (narrower where the domain is "
                 "tiny: data_rate -3..252, pa_level -40..20, pipe numbers -3..8, payload lengths -300..300), 5/3/1/0-byte "
                 "symbolic addresses, list forms with 2-3 symbolic elements and lengths 0, 3, 7; bools enumerated",
        "thorough": "all 49x49 ordered pairs, all triples inside the PIPES, FEATURE and CONFIG groups, 200 random histories of depth 6, 600 deep histories of depth 40 with 4 symbolic calls each",
    },
    "outside": ["nRF24L01 non-plus branch of start_carrier_wave() (documented to overwrite registers behind the cache)",
                "histories deeper than 3 calls", "integer arguments beyond +-65536", "print_details()/print_pipes()",
                "which of 'clamp to 0' and 'abs() first' crc = negative should do (docs and code disagree): only a legal "
                "encoding and locality are demanded", "pa_level invalid input: docs say default, code raises: both accepted"],
    "assumptions": ["register map and legal values: nRF24L01+ product specification chapter 9",
                    "documented domains: docs/core_api/configure_api.rst, basic_api.rst, advanced_api.rst"],
}

if __name__ == "__main__":
    import sys
    sys.exit(main(sys.modules[__name__]))
