"""C05 - a network message reaches its destination exactly once, intact, over any tree.

Decomposed into per-node obligations over symbolic frames plus a bounded whole-system run;
the composition (sender, routers, destination along the C04 path over C01 links) is an
argument on paper.
O1  sender step: write()/send() from a real node at a symbolic address to a symbolic destination
    emits exactly the reference fragmenter's frames (each <= 32 bytes) to the C04 next hop and
    returns True iff every frame was acknowledged (types that await no NETWORK_ACK).
O2  router step: update() with a symbolic frame for somebody else (any type incl. fragments):
    the byte-identical frame goes to the C04 next hop's address; nothing is queued.
O3  destination step: a frame / an in-order fragment stream addressed to this node is queued
    exactly once with identical bytes, type and origin.
O4  bounded co-simulation: real nodes (full and routing-only, plus bystanders on every level) on
    the loss-free medium under the cooperative schedule; routes of 1..8 hops; symbolic type 0..127
    and contents, enumerated lengths: delivered exactly once to the destination, to nobody else,
    and send() returns True.
"""
from checks.netcommon import *  # noqa
from specs import frag_spec as FS

PROPERTY = "C05"


def expected_tx(x, d):
    nh = NS.next_hop(x, d)
    pipe = s_ite(NS.is_descendant(d, x), 5, NS.child_index(x))
    return NS.phys(nh, pipe, False)


def o1_sender(ctx, lx, ld, n, frag, fail, mlvl=False, toggle=False, getters=False):
    from circuitpython_nrf24l01.network.structs import RF24NetworkHeader
    clock = fresh_env(ctx)
    radio, node, x = build_node(ctx, clock, "net", lx)
    if mlvl:
        node.multicast_level = ctx.int("multicast_level", 0, 4)
    d = sym_addr(ctx, "D", ld)
    ctx.assume(d != x)
    if toggle:  # fragmentation switched off and on again (the documented way back): long messages travel as before
        node.fragmentation = not frag
    node.fragmentation = frag
    if getters:  # reading every read-only attribute beforehand changes nothing
        touch_getters(node)
    total = max(1, (n + 23) // 24)
    uids = []
    fail_at = ctx.int("fail_at", 0, total - 1) if fail else None

    def acks(k, pkt):
        if pkt.uid not in uids:
            uids.append(pkt.uid)
        return True if fail_at is None else s_not(fail_at == uids.index(pkt.uid))
    radio.link = ScriptedLink(acks, by_packet=True)
    # user types; those that would await a NETWORK_ACK only between direct neighbours (C13 covers the waiting)
    mtype = ctx.int("type", 0, 127)
    ctx.assume(s_or(mtype <= 64, NS.next_hop(x, d) == d))
    msg = ctx.bytes("msg", n)
    h = RF24NetworkHeader(d, mtype)
    fid = ctx.int("frame_id", 0, 0xFFFF)
    h.frame_id = fid
    sent0 = len(radio.sent)
    ok = node.send(h, msg)
    pk = distinct_packets(radio, sent0)
    if n > 24:
        ref = FS.fragments(x, d, fid, mtype, blist(msg))
    else:
        one = dict(from_node=x, to_node=d, frame_id=fid, message_type=mtype, reserved=0, len=n)
        one.update({("b", j): b for j, b in enumerate(blist(msg))})
        ref = [one]
    if fail:
        fa = ctx.conc(fail_at)
        ctx.check(ok == False, "False when a frame was never acknowledged")  # noqa: E712
        ref = ref[:fa + 1]
    else:
        ctx.check(ok == True, "True when every frame was acknowledged")  # noqa: E712
    ctx.check(len(pk) == len(ref), "exactly ceil(n/24) frames are emitted (up to the failing one)")
    want_addr = expected_tx(x, d)
    for e, rf in zip(pk, ref):
        w = [rf["from_node"] & 0xFF, rf["from_node"] >> 8, rf["to_node"] & 0xFF, rf["to_node"] >> 8, fid & 0xFF, fid >> 8,
             rf["message_type"], rf["reserved"]] + [rf[("b", j)] for j in range(rf["len"])]
        ctx.check(len(e["data"]) <= 32, "frames of at most 32 on-air bytes")
        ctx.check(len(e["data"]) == len(w) and bytes_eq(e["data"], w), "on-air frame = reference frame")
        ctx.check(bytes_eq(e["addr"], want_addr), "sent to the C04 next hop")
    ctx.check(len(queue_frames(node)) == 0, "nothing lands in the sender's own queue")
    ctx.reached()


def o2_router(ctx, role, lvl, lf, ld, n, mlvl=False):
    clock = fresh_env(ctx)
    radio, node, addr = build_node(ctx, clock, role, lvl)
    ctx.assume(addr != 0o4444)
    if mlvl:  # the node subscribes to another level's multicasts: nothing about unicast forwarding may change
        node.multicast_level = ctx.int("multicast_level", 0, 4)
    link, outcome = per_packet_link(ctx, radio, always=True)
    f, d = sym_addr(ctx, "F", lf), sym_addr(ctx, "D", ld)
    ctx.assume(s_and(d != addr, f != d, f != addr))
    mtype = ctx.int("type", 0, 255)
    fid, res = ctx.int("id", 0, 0xFFFF), ctx.int("reserved", 0, 255)
    body = ctx.bytes("body", n)
    frame = [f & 0xFF, f >> 8, d & 0xFF, d >> 8, fid & 0xFF, fid >> 8, mtype, res] + blist(body)
    radio.inject_rx(ctx.int("pipe", 1, 5), frame)
    sent0 = len(radio.sent)
    node.update()
    pk = distinct_packets(radio, sent0)
    ctx.check(len(pk) >= 1, "the frame is forwarded")
    if pk:
        ctx.check(len(pk[0]["data"]) == len(frame) and bytes_eq(pk[0]["data"], frame), "the forwarded frame is byte-identical")
        ctx.check(bytes_eq(pk[0]["addr"], expected_tx(addr, d)), "forwarded to the C04 next hop")
        for e in pk[1:]:
            ctx.check(e["data"][6] == 193, "anything else a router emits is a NETWORK_ACK (C13)")
    ctx.check(len(queue_frames(node)) == 0, "routing nodes do not hand forwarded frames to their own application")
    ctx.reached()


def o3_destination(ctx, role, lvl, lf, n, second=None, same_sender=False):
    clock = fresh_env(ctx)
    radio, node, addr = build_node(ctx, clock, role, lvl)
    link, outcome = per_packet_link(ctx, radio, always=True)
    f = sym_addr(ctx, "F", lf)
    ctx.assume(f != addr)
    mtype = ctx.int("type", 0, 127)
    fid = ctx.int("id", 0, 0xFFFF)
    msg = blist(ctx.bytes("msg", n))
    if n > 24:
        frs = FS.fragments(f, addr, fid, mtype, msg)
    else:
        one = dict(from_node=f, to_node=addr, frame_id=fid, message_type=mtype, reserved=ctx.int("reserved", 0, 255), len=n)
        one.update({("b", j): b for j, b in enumerate(msg)})
        frs = [one]
    sent0 = len(radio.sent)
    for i, fr in enumerate(frs):
        wire = [fr["from_node"] & 0xFF, fr["from_node"] >> 8, fr["to_node"] & 0xFF, fr["to_node"] >> 8, fid & 0xFF, fid >> 8,
                fr["message_type"], fr["reserved"]] + [fr[("b", j)] for j in range(fr["len"])]
        radio.inject_rx(ctx.int("pipe%d" % i, 1, 5), wire)
        node.update()
    msg2 = None
    if second is not None:
        # a second message (another origin), sent after the first was delivered completely but before the application read it
        first_read = None
        if same_sender:
            # the same sender re-uses its header (same frame id) for its next message, after the application read the first one
            first_read = queue_frames(node)
            f2, fid2, t2 = f, fid, ctx.int("type2", 0, 127)
        else:
            f2 = sym_addr(ctx, "F2", (lf + 1) % 5)
            ctx.assume(s_and(f2 != addr, f2 != f))
            fid2, t2 = ctx.int("id2", 0, 0xFFFF), ctx.int("type2", 0, 127)
        msg2 = blist(ctx.bytes("msg2", second))
        for i, fr in enumerate(FS.fragments(f2, addr, fid2, t2, msg2) if second > 24 else
                               [dict(from_node=f2, to_node=addr, frame_id=fid2, message_type=t2, reserved=0, len=second,
                                     **{"b%d" % j: b for j, b in enumerate(msg2)})]):
            body = [fr[("b", j)] for j in range(fr["len"])] if second > 24 else msg2
            wire = [f2 & 0xFF, f2 >> 8, addr & 0xFF, addr >> 8, fid2 & 0xFF, fid2 >> 8, fr["message_type"], fr["reserved"]] + body
            radio.inject_rx(2, wire)
            node.update()
    q = queue_frames(node)
    if second is not None and same_sender:
        q = first_read + q
    ctx.check(len(q) == (1 if second is None else 2), "each message is delivered to the destination's queue exactly once")
    if len(q) >= 1:
        h = q[0].header
        ctx.check(s_and(h.from_node == f, h.message_type == mtype, len(q[0].message) == n and bytes_eq(q[0].message, msg)),
                  "identical bytes, type and origin")
    if len(q) == 2:
        h = q[1].header
        ctx.check(s_and(h.from_node == f2, h.message_type == t2, len(q[1].message) == second and bytes_eq(q[1].message, msg2)),
                  "second message: identical bytes, type and origin, after the first")
    ctx.check(len(distinct_packets(radio, sent0)) == 0, "the destination transmits nothing for a user message addressed to it")
    ctx.reached()


TREES = {
    "deep": [0, 0o1, 0o2, 0o11, 0o12, 0o111, 0o112, 0o1111, 0o1112, 0o3, 0o21, 0o211, 0o5, 0o55],
    "wide": [0, 0o1, 0o2, 0o3, 0o4, 0o5, 0o13, 0o23, 0o33, 0o43, 0o53, 0o15, 0o25],
    "chain": [0, 0o4, 0o24, 0o324, 0o1324, 0o5324, 0o124, 0o14],
    "fifth": [0, 0o1, 0o2, 0o11, 0o51, 0o5, 0o15, 0o55, 0o511, 0o551],
    "corner": [0, 0o4, 0o44, 0o444, 0o4444, 0o3444, 0o1, 0o5, 0o55, 0o555, 0o5555],
}
ROUTES = {
    "deep": [(0o1111, 0o1112), (0o1, 0), (0, 0o1111), (0o111, 0o2), (0o211, 0o12), (0o1112, 0o55), (0o11, 0o111)],
    "wide": [(0o13, 0o23), (0o5, 0o1), (0o43, 0o4), (0, 0o53), (0o15, 0o25)],
    "chain": [(0o1324, 0), (0, 0o5324), (0o1324, 0o5324), (0o124, 0o14), (0o14, 0o1324)],
    "corner": [(0o4444, 0o1), (0o4444, 0o3444), (0o5555, 0o4444), (0o1, 0o4444), (0o4444, 0o444)],
}
ROUTING_ONLY = {0o11, 0o1, 0o24, 0o3}


def o4_cosim(ctx, tree, src, dst, n, frag, warm=(), late=0, hold=1):
    from circuitpython_nrf24l01.rf24_network import RF24Network, RF24NetworkRoutingOnly
    from circuitpython_nrf24l01.network.structs import RF24NetworkHeader
    clock = fresh_env(ctx)
    med = Medium()
    nodes = {}
    for a in TREES[tree]:
        radio = med.add(SimRadio(clock, oct(a)))
        ends = {src, dst} | {x for w in warm for x in w}
        cls = RF24NetworkRoutingOnly if (a in ROUTING_ONLY and a not in ends) else RF24Network
        node = cls(FakeSpiDev(radio), 0, Pin(radio), a)
        node.fragmentation = frag
        nodes[a] = (radio, node)
        med.attach_node(radio, node.update)
    def settle():
        for _ in range(40):
            if not any(st[2] for st in med.nodes.values()):
                break
            med.run_pending()
    # earlier messages, sent one at a time and fully delivered (history matters: radios keep state)
    for k, (ws, wd) in enumerate(warm):
        rw, nw = nodes[ws]
        med.running(rw, True)
        okw = nw.send(RF24NetworkHeader(wd, 1), b"warm-up %d" % k)
        med.running(rw, False)
        settle()
        ctx.check(okw == True, "earlier message %d is sent" % k)  # noqa: E712
        for a, (radio, node) in nodes.items():
            q = queue_frames(node)
            ctx.check(len(q) == (1 if a == wd else 0), "earlier message %d: delivered once to %s only" % (k, oct(wd)))
    mtype = ctx.int("type", 0, 127)
    msg = ctx.bytes("msg", n)
    rs, ns = nodes[src]
    if late:  # timing jitter as a symbolic schedule: the first `late` times a node could run, it may be held back
        symbolic_schedule(ctx, med, late, hold=hold)
        if hold > 1:  # a node that is late by more than route_timeout legitimately costs the origin its NETWORK_ACK (C13)
            ctx.assume(mtype <= 64)
    med.running(rs, True)
    ok = ns.send(RF24NetworkHeader(dst, mtype), msg)
    med.running(rs, False)
    settle()
    med.defer = None  # late is not never: every node that was held back gets to run
    settle()
    ctx.check(len(med.air) < 400, "the network goes quiet again (no endless forwarding)")
    ctx.check(not med.errors, "no node raised while forwarding: %r" % (med.errors[:1],))
    ctx.check(ok == True, "write()/send() returns True when no packet is lost")  # noqa: E712
    for a, (radio, node) in nodes.items():
        q = queue_frames(node)
        if a == dst:
            ctx.check(len(q) == 1, "delivered to the destination's queue exactly once")
            if len(q) == 1:
                h = q[0].header
                ctx.check(s_and(h.from_node == src, h.message_type == mtype,
                                len(q[0].message) == n and bytes_eq(q[0].message, msg)), "identical bytes, type and origin")
        else:
            ctx.check(len(q) == 0, "delivered to no other node's queue (node %s)" % oct(a))
        ctx.check(not radio.unspecified, "no use of radio behaviour the specification leaves open")
    ctx.observe("air", len(med.air))
    ctx.observe("held_back", med.deferred)
    ctx.reached()


def jobs(tier):
    out = []
    lens = (0, 1, 24, 25, 49, 144) if tier == "quick" else (0, 1, 23, 24, 25, 47, 48, 49, 72, 96, 120, 143, 144)
    pairs = [(a, b) for a in range(5) for b in range(5) if (a, b) != (0, 0)]
    for i, (lx, ld) in enumerate(pairs):
        for n in lens:
            if tier == "quick" and (i + n) % 3:
                continue
            out.append(Job("O1-sender-step", o1_sender, dict(lx=lx, ld=ld, n=n, frag=True, fail=False), cost=3 + n // 24))
    for n in (0, 24):
        out.append(Job("O1-sender-step", o1_sender, dict(lx=2, ld=1, n=n, frag=False, fail=False), cost=3))
    for lx, ld, n in ((1, 2, 25), (2, 0, 144), (0, 3, 49)):
        out.append(Job("O1-sender-step-after-toggling-fragmentation", o1_sender, dict(lx=lx, ld=ld, n=n, frag=True, fail=False, toggle=True), cost=8))
    out.append(Job("O1-sender-step-after-toggling-fragmentation", o1_sender, dict(lx=2, ld=1, n=24, frag=False, fail=False, toggle=True), cost=4))
    for lx, ld, n in ((3, 1, 30), (0, 2, 1)):
        out.append(Job("O1-sender-step-after-reading-every-getter", o1_sender, dict(lx=lx, ld=ld, n=n, frag=True, fail=False, getters=True), cost=8))
    for n in (25, 72, 144):
        out.append(Job("O1-sender-step-failing-frame", o1_sender, dict(lx=1, ld=2, n=n, frag=True, fail=True), cost=30))
    roles = ("routing", "net", "mesh")
    combos = [(r, l, lf, ld) for r in roles for l in range(5) for lf in range(5) for ld in range(5)
              if not (r == "mesh" and l == 0) and (lf, ld) != (0, 0) and (l, ld) != (0, 0) and (l, lf) != (0, 0)]
    for i, (r, l, lf, ld) in enumerate(combos):
        if tier == "quick" and i % 9:
            continue
        out.append(Job("O2-router-step", o2_router, dict(role=r, lvl=l, lf=lf, ld=ld, n=(0, 24, 2)[i % 3]), cost=10, shards=2))
    for r, l, lf, ld in (("net", 1, 0, 3), ("routing", 2, 4, 1), ("net", 2, 1, 4), ("mesh", 3, 0, 4), ("net", 0, 2, 3), ("routing", 1, 3, 2)):
        out.append(Job("O2-router-step-multicast-level-overridden", o2_router, dict(role=r, lvl=l, lf=lf, ld=ld, n=2, mlvl=True), cost=12, shards=2))
    for lx, ld in ((0, 2), (1, 3), (2, 4), (3, 1), (1, 2)):
        out.append(Job("O1-sender-step-multicast-level-overridden", o1_sender, dict(lx=lx, ld=ld, n=25, frag=True, fail=False, mlvl=True), cost=6))
    for r in ("net", "mesh", "master"):
        for l in ((0,) if r == "master" else range(0 if r == "net" else 1, 5)):
            for n in ((0, 24, 25, 144) if tier == "quick" else lens):
                out.append(Job("O3-destination-step", o3_destination, dict(role=r, lvl=l, lf=(l + 2) % 5, n=n), cost=4 + n // 24))
    for n, sec in ((30, 40), (49, 49), (5, 30), (30, 5)):
        out.append(Job("O3-destination-step-two-messages-one-header", o3_destination, dict(role="net", lvl=2, lf=1, n=n, second=sec, same_sender=True), cost=10))
    for n, sec in ((30, 40), (144, 25), (5, 30), (30, 5)):
        out.append(Job("O3-destination-step-two-messages", o3_destination, dict(role="net", lvl=2, lf=1, n=n, second=sec), cost=10))
    for tree, routes in ROUTES.items():
        for src, dst in routes:
            for n in ((1, 25, 144) if tier == "quick" else lens):
                out.append(Job("O4-co-simulation", o4_cosim, dict(tree=tree, src=src, dst=dst, n=n, frag=True), cost=20 + n // 8))
            out.append(Job("O4-co-simulation", o4_cosim, dict(tree=tree, src=src, dst=dst, n=24, frag=False), cost=20))
    # histories: the radios' state left by earlier messages (5th children share an uplink address with the grandparent's
    # downlink to their parent)
    hist = [([(0, 0o1)], 0o51, 0o11), ([(0, 0o1), (0o51, 0o1)], 0o51, 0o11), ([(0o1, 0o51), (0, 0o5)], 0o55, 0o15),
            ([(0o2, 0o511)], 0o551, 0o511), ([(0o511, 0o2), (0o2, 0o511)], 0o511, 0o551), ([(0o5, 0o55), (0o55, 0)], 0, 0o551)]
    for warm, src, dst in hist:
        for n in ((2, 30) if tier == "quick" else (0, 2, 30, 144)):
            out.append(Job("O4-co-simulation-with-history", o4_cosim,
                           dict(tree="fifth", src=src, dst=dst, n=n, frag=True, warm=[list(w) for w in warm]), cost=40))
    # timing jitter: symbolic schedules (2**late of them per route and length), every node may be late
    for tree, src, dst, n, late, hold in (("deep", 0o1111, 0o1112, 25, 5, 1), ("deep", 0o211, 0o12, 1, 6, 8), ("chain", 0o1324, 0o5324, 49, 5, 40),
                                          ("fifth", 0o55, 0o15, 30, 5, 8), ("wide", 0o13, 0o23, 72, 4, 40)) if tier == "quick" else \
            [(t, s_, d_, n, 7, h) for t, rr in ROUTES.items() for s_, d_ in rr for n, h in ((1, 8), (49, 1), (49, 40))]:
        out.append(Job("O4-co-simulation-symbolic-schedule", o4_cosim,
                       dict(tree=tree, src=src, dst=dst, n=n, frag=True, late=late, hold=hold), cost=60, shards=2))
    return out


META = {
    "bounds": {"quick": "O1: a third of (level pair x length in {0,1,24,25,49,144}) with symbolic addresses/contents/id, type 0..64, "
                        "fragmentation on (and off for 0/24 bytes), a symbolic failing frame for 25/72/144 bytes; O2: a ninth of "
                        "all role x level x origin level x destination level combinations, all 256 types (fragments included); "
                        "O3: every role/level, lengths 0/24/25/144, symbolic origin; O4: 17 routes of 1..8 hops over three fixed "
                        "trees of 8-14 real nodes (routing-only relays, bystanders on every level), symbolic type 0..127 (so "
                        "NETWORK_ACK-awaiting types are included) and contents, lengths 1/25/144 and 24 with fragmentation off; plus 6 two/three-message histories on a tree with "
                        "5th children (radio state left by earlier messages)",
               "thorough": "all combinations, 13 lengths"},
    "outside": ["concurrent cross traffic (excluded by the statement)", "schedules other than the cooperative one and its hold-back family; timing jitter beyond the symbolic hold-back schedules (the first K occasions a node could run it may be held back for 1/8/40 poll points; K = 4..6 quick, 6..8 thorough)",
                "packet loss (the statement assumes none; C02/C13 cover loss per hop)", "trees other than the three co-simulated "
                "ones for the whole-system run (the per-node steps cover all addresses)"],
    "assumptions": ["composition argument: O1 o O2* o O3 along the C04 path over C01 links",
                    "cooperative schedule: a node that received something runs update() at the next SPI transaction of a radio "
                    "that is itself listening, unless it is already on the call stack (env/medium.py)"],
}

if __name__ == "__main__":
    import sys
    FS.selftest()
    sys.exit(main(sys.modules[__name__]))
