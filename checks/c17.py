"""C17 - mesh joins yield distinct working addresses; lookups give the documented codes.

O1  bounded co-simulation: a real master and 1..3 real joining nodes (and, in the relay
    scenario, an already joined level-1 node with all level-1 slots leased, which forces the join
    through it) on the loss-free medium under the cooperative schedule; the node IDs are SYMBOLIC
    and pairwise distinct.  Sequentially: every renew_address() returns a valid address different
    from all other connected nodes' and recorded under the node's ID in the master's table, and
    the node listens on it (C07's post-condition); lookups both ways return the master's mapping,
    the trivial answers for 0 / None, -2 for unknown IDs / addresses, and leave the table alone;
    a message sent to a node ID arrives at that node; check_connection() is True for connected
    nodes; release_address() returns the node to 0o4444, frees its lease, check_connection() turns
    False; a re-join works.
O3  join under packet loss (every packet of a master + joiner run has a symbolic fate): no exception, termination,
    valid-or-None, both radios listening afterwards.
O2  node-side steps with a symbolic peer: lookup / release / check_connection against an arbitrary
    (or absent) answer: -1 when nothing arrives or the write fails, -2 when unconnected, the
    decoded value otherwise; an address response is accepted only if `reserved` carries the node's
    own ID and the address is a child of the contacted node.
"""
from checks.netcommon import *  # noqa
from checks.c16 import table_items
from vsym.symcoll import SymDict

PROPERTY = "C17"


def settle(med):
    for _ in range(60):
        if not any(st[2] for st in med.nodes.values()):
            break
        med.run_pending()


def call(med, radio, fn, *a):
    med.running(radio, True)
    try:
        return fn(*a)
    finally:
        med.running(radio, False)
        settle(med)


def o1_cosim(ctx, joiners, relay, relay_addr=0o1, releaser="last", late=0, hold=1):
    from circuitpython_nrf24l01.rf24_mesh import RF24Mesh, RF24MeshNoMaster
    clock = fresh_env(ctx, tick_ns=2_000_000)
    clock.max_looks = 60000
    med = Medium()
    rm = med.add(SimRadio(clock, "master"))
    master = RF24Mesh(FakeSpiDev(rm), 0, Pin(rm), 0)
    ids = []

    def fresh_id(name):
        k = ctx.int(name, 1, 255)
        for o in ids:
            ctx.assume(k != o)
        ids.append(k)
        return k
    pre = []
    nodes = []  # (id, radio, node, address)
    if relay:
        rid = fresh_id("relay_id")
        rr = med.add(SimRadio(clock, "relay"))
        rnode = RF24MeshNoMaster(FakeSpiDev(rr), 0, Pin(rr), rid)
        rnode._begin(relay_addr)  # an already joined node (private placement, see netcommon)
        med.attach_node(rr, rnode.update)
        pre = [[rid, relay_addr]]
        nodes.append((rid, rr, rnode, relay_addr))
        anc = int(NS.parent(relay_addr))
        while anc:  # the relay's ancestors are running, joined nodes too (they route its traffic); none of them accepts children
            aid = fresh_id("anc%o" % anc)
            ra_ = med.add(SimRadio(clock, "anc%o" % anc))
            an = RF24MeshNoMaster(FakeSpiDev(ra_), 0, Pin(ra_), aid)
            an._begin(anc)
            an.allow_children = False
            med.attach_node(ra_, an.update)
            pre.append([aid, anc])
            nodes.append((aid, ra_, an, anc))
            anc = int(NS.parent(anc))
        # every level-1 slot is leased (to running nodes above, or to nodes that are not running)
        taken = {a for _k, a in pre}
        pre += [[fresh_id("ghost%d" % i), i] for i in (1, 2, 3, 4, 5) if i not in taken]
    master.dhcp_dict = SymDict(pre) if ctx.symbolic else dict((k, a) for k, a in pre)
    med.attach_node(rm, master.update)
    if late:  # timing jitter: the master, the relay and the joined nodes may run late, symbolically (the first `late` occasions)
        symbolic_schedule(ctx, med, late, hold=hold)
    for j in range(joiners):
        k = fresh_id("id%d" % j)
        rj = med.add(SimRadio(clock, "joiner%d" % j))
        cls = RF24Mesh if j % 2 else RF24MeshNoMaster
        nj = cls(FakeSpiDev(rj), 0, Pin(rj), k)
        if relay:
            # the documented block_less_callback hook runs between the joiner's contact attempts - right after its direct
            # request went unanswered by the full master: let the connected relay ask the master something at that moment
            asked = []

            def cb(_rr=rr, _rn=rnode):
                if not asked:
                    asked.append(1)
                    med.running(_rr, True)
                    try:
                        _rn.lookup_address(ids[0])
                    finally:
                        med.running(_rr, False)
            nj.block_less_callback = cb
        t0 = clock.now
        addr = call(med, rj, nj.renew_address, 2.0)
        nj.block_less_callback = None
        ctx.check(addr is not None, "renew_address() returns an address while a master is running")
        if addr is None:
            return
        # the timer is looked at between attempts: one attempt (poll 55 ms + up to 4 contacts x (225 ms wait + two 135 ms
        # look-ups)) may still be running when it expires
        ctx.check(clock.now - t0 <= 2_000_000_000 + 2_200_000_000, "within the given timeout (plus at most one attempt)")
        ctx.check(s_and(NS.valid(addr), addr != 0, addr != 0o4444), "a valid address")
        ctx.check(nj.node_address == addr, "node_address is the returned address")
        for (_k, _r, _n, a) in nodes:
            ctx.check(a != addr, "different from every other connected node's")
        if relay:
            ctx.check(NS.parent(addr) == relay_addr, "joined through the relay because the master's own slots are exhausted")
        tab = table_items(master)
        ctx.check(s_or(*[s_and(kk == k, aa == addr) for kk, aa in tab]) if tab else False, "recorded under its ID in the master's table")
        known = ids
        for kk, aa in tab:
            ctx.check(s_or(*[kk == o for o in known]), "the master's table holds leases of real node IDs only (asking never disturbs the master)")
        for kp, ap in pre:
            ctx.check(s_or(*[s_and(kk == kp, aa == ap) for kk, aa in tab]), "existing leases are undisturbed by a join")
        listening_ok(ctx, rj, addr, "after renew_address()")
        med.attach_node(rj, nj.update)
        nodes.append((k, rj, nj, addr))
    ctx.check(not med.errors, "no node raised: %r" % (med.errors[:1],))
    # lookups
    # the node that asks, sends, releases and re-joins below, and a second connected node
    me = len(nodes) - 1 if releaser == "last" else len(nodes) - joiners
    k0, r0, n0, a0 = nodes[me]
    peer = (me - 1) if releaser == "last" else len(nodes) - 1
    others = [e for i, e in enumerate(nodes) if i != me]
    snapshot = [list(e) for e in table_items(master)]
    for (k, r, n, a) in nodes:
        ctx.check(call(med, r0, n0.lookup_address, k) == a, "lookup_address(id) returns the master's mapping")
        ctx.check(call(med, r0, n0.lookup_node_id, a) == k, "lookup_node_id(address) returns the master's mapping")
    ctx.check(n0.lookup_address(0) == 0, "lookup_address(0) is 0")
    ctx.check(n0.lookup_node_id(0) == 0, "lookup_node_id(0) is 0")
    ctx.check(n0.lookup_node_id(None) == k0, "lookup_node_id(None) is the node's own ID")
    unknown = ctx.int("unknown_id", 1, 255)
    for o in ids:
        ctx.assume(unknown != o)
    ctx.check(call(med, r0, n0.lookup_address, unknown) == -2, "lookup_address(unknown ID) is -2")
    ua = sym_addr(ctx, "unknown_addr", 3)
    for (_k, _r, _n, a) in nodes:
        ctx.assume(ua != a)
    ctx.check(call(med, r0, n0.lookup_node_id, ua) == -2, "lookup_node_id(unknown address) is -2")
    after = table_items(master)
    ctx.check(len(after) == len(snapshot), "asking never disturbs the master")
    for (k1, a1), (k2, a2) in zip(after, snapshot):
        ctx.check(s_and(k1 == k2, a1 == a2), "asking never disturbs the master's table")
    ctx.check(not med.errors, "no node raised during lookups: %r" % (med.errors[:1],))
    # a message sent to a node ID arrives at that node
    if len(nodes) >= 2:
        k1, r1, n1, a1 = nodes[peer]
        body = ctx.bytes("body", 3)
        queue_frames(n1)
        ok = call(med, r0, n0.send, k1, 9, body)
        ctx.check(ok == True, "send(node_id, ...) succeeds")  # noqa: E712
        # ... and so does a second one of the same type, sent before the addressee's application has read the first
        body2 = ctx.bytes("body2", 3)
        ok2 = call(med, r0, n0.send, k1, 9, body2)
        ctx.check(ok2 == True, "a second send(node_id, ...) succeeds")  # noqa: E712
        q = queue_frames(n1)
        ctx.check(len(q) == 2, "each message sent to a node ID arrives at the node with that ID")
        for got, want in zip(q, (body, body2)):
            ctx.check(s_and(got.header.from_node == a0, got.header.message_type == 9, bytes_eq(got.message, want)), "intact, in order")
    # connection checks, release, re-join
    ctx.check(call(med, r0, n0.check_connection) == True, "check_connection() is True for a connected node")  # noqa: E712
    # (the node's last activity before releasing is a fragmented message to the master: the release must still be a release)
    big = ctx.bytes("big", 40)
    queue_frames(master)
    ctx.check(call(med, r0, n0.send, 0, 33, big) == True, "send(0, ...) of a 40-byte message to the master succeeds")  # noqa: E712
    qm = queue_frames(master)
    ctx.check(len(qm) == 1 and len(qm[0].message) == 40 and bool(bytes_eq(qm[0].message, big)), "the master receives it, whole")
    ctx.check(call(med, r0, n0.release_address) == True, "release_address() succeeds")  # noqa: E712
    ctx.check(n0.node_address == 0o4444, "release_address() returns the node to the unassigned address")
    listening_ok(ctx, r0, 0o4444, "after release_address()")
    ctx.check(s_not(s_or(*[aa == a0 for kk, aa in table_items(master)])) if table_items(master) else True, "and frees its lease")
    ctx.check(n0.check_connection() == False, "check_connection() is False for an unconnected node")  # noqa: E712
    ctx.check(n0.lookup_address(unknown) == -2, "lookups on an unconnected node answer -2")
    again = call(med, r0, n0.renew_address, 2.0)
    ctx.check(again is not None, "a re-join works")
    if again is not None:
        ctx.check(s_and(NS.valid(again), again != 0, again != 0o4444), "re-join yields a valid address")
        for (_k, _r, _n, a) in others:
            ctx.check(a != again, "re-join: different from every other connected node's")
        listening_ok(ctx, r0, again, "after re-joining")
        ctx.check(len(queue_frames(master)) == 0, "nothing of the release / re-join reaches the master's application")
        if len(nodes) >= 2:
            # a node that is still connected renews its address (its lease now precedes the re-joined node's in the table)
            k1, r1, n1, a1 = nodes[peer]
            new1 = call(med, r1, n1.renew_address, 2.0)
            ctx.check(new1 is not None, "renew_address() of a connected node returns an address")
            if new1 is not None:
                ctx.check(s_and(NS.valid(new1), new1 != 0, new1 != 0o4444, new1 != again), "a valid address different from the re-joined node's")
                for (_k, _r, _n, a) in [e for i, e in enumerate(nodes) if i not in (me, peer)]:
                    ctx.check(a != new1, "renewal: different from every other connected node's")
                tab = table_items(master)
                ctx.check(s_or(*[s_and(kk == k1, aa == new1) for kk, aa in tab]), "renewal: recorded under its ID in the master's table")
    ctx.check(not med.errors, "no node raised: %r" % (med.errors[:1],))
    for r in med.radios:
        ctx.check(not r.unspecified, "no use of radio behaviour the specification leaves open")
    ctx.reached()


def o3_lossy_join(ctx, timeout_ms):
    """with packet loss only the no-exception, termination and valid-or-None clauses are claimed: master + one joiner on
    a medium where EVERY packet has a symbolic fate (all attempts of a packet share it)"""
    from circuitpython_nrf24l01.rf24_mesh import RF24Mesh, RF24MeshNoMaster
    clock = fresh_env(ctx, tick_ns=5_000_000)
    clock.max_looks = 60000
    med = Medium()
    fate = {}

    def loss(src, dst, pkt, attempt):
        if pkt.uid not in fate:
            fate[pkt.uid] = ctx.bool("lost_%s" % pkt.uid.replace("#", "_"))
        return "pkt" if bool(fate[pkt.uid]) else "ok"
    med.loss = loss
    rm = med.add(SimRadio(clock, "master"))
    master = RF24Mesh(FakeSpiDev(rm), 0, Pin(rm), 0)
    master.dhcp_dict = SymDict() if ctx.symbolic else {}
    med.attach_node(rm, master.update)
    k = ctx.int("id", 1, 255)
    rj = med.add(SimRadio(clock, "joiner"))
    nj = RF24MeshNoMaster(FakeSpiDev(rj), 0, Pin(rj), k)
    addr = call(med, rj, nj.renew_address, timeout_ms / 1000)  # must not raise, must terminate
    ctx.check(not med.errors, "no node raised under packet loss: %r" % (med.errors[:1],))
    if addr is None:
        ctx.check(nj.node_address == 0o4444, "None: the node stays unassigned")
    else:
        ctx.check(s_and(NS.valid(addr), addr != 0, addr != 0o4444), "a returned address is valid")
        ctx.check(nj.node_address == addr, "and it is the node's address")
    listening_ok(ctx, rj, nj.node_address, "after renew_address() under loss")
    listening_ok(ctx, rm, 0, "the master after serving under loss")
    ctx.observe("n_packets", len(fate))
    ctx.reached()


def o2_node_steps(ctx, op, answer):
    """a single real mesh node at a symbolic address; the peer is symbolic"""
    clock = fresh_env(ctx, tick_ns=5_000_000)
    radio, node, x = build_node(ctx, clock, "mesh", 2)
    ctx.assume(x != 0o4444)
    link, outcome = per_packet_link(ctx, radio)
    state = {"looks": None}
    reply = None
    foreign = answer == "foreign"  # somebody else's look-up answer passes through this node while it waits
    if answer != "none":
        n = {"short": 1, "ok": 2, "long": 5, "foreign": 2}[answer]
        reply = blist(ctx.bytes("reply", n))
    rtype = 196 if op == "lookup_address" else 198

    def on_look():
        if reply is None or state.get("done") or state["looks"] is None:
            return
        if bool(clock.looks - state["looks"] == ctx.int("reply_at_look", 0, 12)) and radio.listening():
            radio.inject_rx(1, [0, 0, x & 0xFF, x >> 8, 3, 0, rtype, 0] + reply)
            state["done"] = True
    if reply is not None:
        at = ctx.int("reply_at_look", 0, 12)

        def on_look():  # noqa: F811
            if state.get("done") or state["looks"] is None:
                return
            if bool(clock.looks - state["looks"] == at) and radio.listening():
                to = x if not foreign else (x | (3 << 6))  # a child of this level-2 node
                radio.inject_rx(1, [0, 0, to & 0xFF, to >> 8, 3, 0, rtype, 0] + reply)
                state["done"] = True
    clock.on_look = on_look
    state["looks"] = clock.looks
    sent0 = len(radio.sent)
    arg = ctx.int("arg", 1, 255) if op == "lookup_address" else sym_addr(ctx, "arg", 2)
    res = node.lookup_address(arg) if op == "lookup_address" else node.lookup_node_id(arg)
    clock.on_look = None
    pk = distinct_packets(radio, sent0)
    delivered = bool(pk) and pk[0]["acked"] == True  # noqa: E712
    if not delivered:
        ctx.check(res == -1, "-1 when the request could not be delivered")
    elif not state.get("done") or foreign:
        ctx.check(res == -1, "-1 when no answer (addressed to this node) arrives in time")
    elif answer == "short":
        ctx.check(res == -1, "-1 for a truncated answer (never an exception)")
    else:
        v = reply[0] | (reply[1] << 8)
        ctx.check(res == s_ite(v >= 0x8000, v - 0x10000, v), "the answer decoded as a signed 16-bit value (negative codes included)")
    listening_ok(ctx, radio, x, "after a lookup")
    ctx.reached()


def o2_truth_tables(ctx, op):
    """release_address() / check_connection() on a single real mesh node with a symbolic outcome per transmitted packet"""
    clock = fresh_env(ctx, tick_ns=5_000_000)
    radio, node, x = build_node(ctx, clock, "mesh", 2)
    connected = bool(ctx.choice("connected", 2))
    if not connected:
        node._begin(0o4444)
        x = 0o4444
    else:
        ctx.assume(x != 0o4444)
    link, outcome = per_packet_link(ctx, radio)
    sent0 = len(radio.sent)
    if op == "release":
        res = node.release_address()
        pk = distinct_packets(radio, sent0)
        if not connected:
            ctx.check(res == False and not pk, "release_address() on an unconnected node: False, nothing sent")  # noqa: E712
        else:
            ok = bool(pk) and pk[0]["acked"] == True  # noqa: E712
            ctx.check(res == ok, "release_address() is True iff the release reached the first hop")
            ctx.check(node.node_address == (0o4444 if ok else x), "it returns the node to the unassigned address iff it succeeded")
            if pk:
                d = pk[0]["data"]
                ctx.check(s_and(d[6] == 197, (d[0] | (d[1] << 8)) == x, (d[2] | (d[3] << 8)) == 0), "a MESH_ADDR_RELEASE from the node to the master")
    else:
        attempts = ctx.int("attempts", 0, 3)
        res = node.check_connection(attempts)
        pk = distinct_packets(radio, sent0)
        if not connected:
            ctx.check(res == False and not pk, "check_connection() is False for an unconnected node (nothing sent)")  # noqa: E712
        else:
            any_ok = any(e["acked"] for e in pk)
            ctx.check(res == any_ok, "check_connection() is True exactly when a ping to the parent was acknowledged")
            ctx.check(len(pk) <= ctx.conc(attempts), "at most `attempts` pings")
            for e in pk:
                ctx.check(s_and(e["data"][6] == 130, (e["data"][2] | (e["data"][3] << 8)) == NS.parent(x)), "a NETWORK_PING to the parent")
    listening_ok(ctx, radio, node.node_address, "after %s" % op)
    ctx.reached()


def jobs(tier):
    out = []
    for j in ((1, 2, 3, 4, 6) if tier == "quick" else (1, 2, 3, 4, 5, 6, 8, 12)):
        out.append(Job("O1-co-simulation", o1_cosim, dict(joiners=j, relay=False), cost=100 * j))
        if j in (2, 3):  # the first joiner releases and re-joins, then the last one renews (table order differs from join order)
            out.append(Job("O1-co-simulation", o1_cosim, dict(joiners=j, relay=False, releaser="first"), cost=100 * j))
    for j in ((1, 2, 3) if tier == "quick" else (1, 2, 3, 4)):
        out.append(Job("O1-co-simulation-through-relay", o1_cosim, dict(joiners=j, relay=True), cost=200 * j))
    for ra in ((0o444,) if tier == "quick" else (0o444, 0o44, 0o21)):
        out.append(Job("O1-co-simulation-through-deep-relay", o1_cosim, dict(joiners=1, relay=True, relay_addr=ra), cost=300))
    for j, relay, late, hold in (((2, False, 5, 1), (2, False, 4, 8), (1, True, 4, 1)) if tier == "quick" else
                                 ((2, False, 7, 1), (2, False, 6, 8), (3, False, 6, 4), (1, True, 6, 1), (1, True, 6, 8), (2, True, 5, 4))):
        out.append(Job("O1-co-simulation-symbolic-schedule", o1_cosim, dict(joiners=j, relay=relay, late=late, hold=hold),
                       cost=400, shards=4))
    for tmo in ((300, 700) if tier == "quick" else (300, 700, 1500)):
        out.append(Job("O3-join-under-packet-loss", o3_lossy_join, dict(timeout_ms=tmo), cost=300, shards=8, max_paths=60000))
    for op in ("release", "check_connection"):
        out.append(Job("O2-release-and-check_connection-truth-tables", o2_truth_tables, dict(op=op), cost=20, shards=2))
    for op in ("lookup_address", "lookup_node_id"):
        for answer in ("none", "short", "ok", "long", "foreign"):
            out.append(Job("O2-lookup-step", o2_node_steps, dict(op=op, answer=answer), cost=20, shards=2))
    return out


META = {
    "bounds": {"quick": "O1: master + 1, 2, 3, 4, 6 joiners (the sixth has to join through a joined level-1 node) joining sequentially with symbolic pairwise distinct IDs 1..255 (alternating "
                        "RF24MeshNoMaster / RF24Mesh objects), and master + joined level-1 relay with all five level-1 slots leased + "
                        "1, 2, 3 joiners; then lookups both ways for every node, trivial and unknown arguments (symbolic), send to a "
                        "node ID (3 symbolic bytes), check_connection, release, re-join; O2: lookup_address / lookup_node_id on a "
                        "node at a symbolic level-2 address with symbolic request outcome and no / 1-byte / 2-byte / 5-byte symbolic "
                        "answer injected at a symbolic clock look",
               "thorough": "1..6, 8 and 12 direct joiners, up to 4 joiners through the relay"},
    "outside": ["start offsets, join orders other than sequential, MCU timing jitter beyond the symbolic hold-back schedules (the first K occasions a node could run it may be held back for 1/8/40 poll points; K = 4..6 quick, 6..8 thorough), true concurrency (the cooperative schedule is "
                "one schedule)", "packet loss with more than one joiner (O3 covers master + 1 joiner with a symbolic fate per packet; per-node steps with symbolic outcomes: O2, C07, C15)",
                "more than 12 joiners"],
    "assumptions": ["cooperative schedule of env/medium.py; loss-free medium", "the relay is placed at 0o1 with the private _begin (its "
                    "own join is the 'direct' scenario)"],
}

if __name__ == "__main__":
    import sys
    sys.exit(main(sys.modules[__name__]))
