"""C13 - NETWORK_ACK: awaited only when needed, sent once, believed only if received.

O1  origin: write() of a single-frame unicast from a real node X (symbolic address) to a
    symbolic valid destination D, type symbolic over 0..255 minus the types the network
    consumes itself; the first hop's outcome is symbolic; a NETWORK_ACK frame (addressed to X, or
    to somebody else) is injected at a symbolic clock-look index - or never; tx_timeout /
    route_timeout and the clock tick are symbolic.  write() must wait iff type in 65..191 and
    the next hop is not the destination, return True iff the first hop accepted the frame and
    (when it waits) a NETWORK_ACK addressed to X arrived in time, and never block longer than
    the timeouts allow (virtual time).
O2  last hop / router: update() on a node with a symbolic frame from F to D in its RX FIFO
    (D != node, not multicast): exactly one NETWORK_ACK to the origin iff the type is in
    65..191, this hop delivers to the final destination, the delivery was acknowledged and
    the frame is not the node's own; never otherwise (non-last hop, failed delivery, other
    types, NETWORK_ACK frames themselves).
O5  the origin is also a relay: the awaited NETWORK_ACK sits in the RX FIFO behind a child's frame whose relay needs re-sending.
O4  multicasts: neither receiving / relaying one of any type nor sending one causes a NETWORK_ACK, and multicast() does not wait.
"""
from checks.netcommon import *  # noqa

PROPERTY = "C13"
NETWORK_ACK = 193


def user_or_system_type(ctx, name="type"):
    t = ctx.int(name, 0, 255)
    ctx.assume(s_and(*[t != c for c in CONSUMED]))
    return t


def o1_origin(ctx, lx, ld, ack_to, tick_ms, role="net", multicast=True, reuse=False, readdress=False, outage=False):
    from circuitpython_nrf24l01.network.structs import RF24NetworkHeader
    tick = tick_ms * 1_000_000  # constant within a run; enumerated (a symbolic tick makes every time comparison nonlinear)
    clock = fresh_env(ctx, tick_ns=tick)
    radio, node, x = build_node(ctx, clock, role, lx)
    d = sym_addr(ctx, "D", ld)
    ctx.assume(d != x)
    if role == "mesh":
        ctx.assume(x != 0o4444)
    if not multicast:
        node.allow_multicast = False
        node.node_address = x  # the documented way to apply the change
    if outage:
        # the first hop answers only after an outage of symbolic length around tx_timeout (the frame is re-sent from the TX FIFO
        # meanwhile): "accepted by the first hop" is then decided by the LAST attempt, possibly the one crossing tx_timeout
        link, outcome = outage_link(ctx, radio, clock, (0, 9, 19, 24, 29, 40, None), only=lambda i: i == 0)
        node.tx_timeout = (12, 25)[ctx.choice("tx_timeout_pick", 2)]
        rt = 40
        node.route_timeout = rt
    else:
        link, outcome = per_packet_link(ctx, radio)
        node.tx_timeout = ctx.int("tx_timeout", 5, 30)
        rt = ctx.int("route_timeout", 5, 40)
    node.route_timeout = rt
    if readdress:  # the address is assigned (again) after the time-outs were chosen: they are the application's, and stay
        node.node_address = x
        ctx.check(s_and(node.route_timeout == rt, node.tx_timeout >= 5), "re-assigning node_address keeps route_timeout and tx_timeout")
    mtype = user_or_system_type(ctx)
    inject_at = ctx.int("inject_at_look", 0, 70) if not outage else (2, 9, 200)[ctx.choice("inject_pick", 3)]  # 70 / 200 = never (beyond every loop)
    other = sym_addr(ctx, "O", 1) if ack_to == "other" else None
    state = {"t_inj": None, "start_looks": None}

    def on_look():
        if state["start_looks"] is None or state["t_inj"] is not None:
            return
        k = clock.looks - state["start_looks"]
        if bool(k == inject_at) and radio.listening():
            to = x if other is None else other
            frame = [to & 0xFF, to >> 8, to & 0xFF, to >> 8, 7, 0, NETWORK_ACK, 0]
            if radio.inject_rx(1, frame):
                state["t_inj"] = clock.now
    clock.on_look = on_look
    if other is not None:
        ctx.assume(other != x)
    frame = None
    if reuse:
        # the application keeps one frame object: it was first written to a direct neighbour with a type of the OTHER class
        # (awaits / does not await a NETWORK_ACK), then re-addressed and re-typed
        from circuitpython_nrf24l01.network.structs import RF24NetworkFrame
        t_pre = ctx.int("type_before", 0, 127)
        ctx.assume((t_pre > 64) != s_and(mtype > 64, mtype < 192))
        frame = RF24NetworkFrame(RF24NetworkHeader(NS.next_hop(x, d), t_pre), b"pq")
        node.write(frame)
        frame.header.to_node, frame.header.message_type, frame.message = d, mtype, b"xy"
    state["start_looks"] = clock.looks
    t0, sent0 = clock.now, len(radio.sent)
    if frame is not None:
        ok = node.write(frame)
    elif role == "mesh":
        ok = node.write(d, mtype, b"xy")
    else:
        ok = node.send(RF24NetworkHeader(d, mtype), b"xy")
    t1 = clock.now
    clock.on_look = None
    pk = distinct_packets(radio, sent0)
    ctx.check(len(pk) >= 1, "the frame is put on the air")
    if not pk:
        return
    first = pk[0]
    accepted = first["acked"] == True  # noqa: E712
    if outage:
        accepted = any(e["uid"] == first["uid"] and e["acked"] for e in radio.sent[sent0:])
    nh = NS.next_hop(x, d)
    should_wait = s_and(mtype > 64, mtype < 192, nh != d)
    t_accept = None
    for e in radio.sent[sent0:]:
        if e["uid"] == first["uid"] and e["acked"]:
            t_accept = e.get("t_done")
    if not accepted:
        ctx.check(ok == False, "False when the first hop never accepted the frame")  # noqa: E712
    elif not bool(should_wait):
        ctx.check(ok == True, "no NETWORK_ACK is awaited (other type or direct neighbour): True as soon as the first hop accepts")  # noqa: E712
    else:
        arrived = state["t_inj"] is not None and other is None
        if ok is True or (ok is not False and bool(ok == True)):  # noqa: E712
            ctx.check(arrived, "True only if a NETWORK_ACK addressed to the sender arrived")
        if not arrived:
            ctx.check(ok == False, "False when no NETWORK_ACK addressed to the sender arrived")  # noqa: E712
        elif t_accept is not None:
            in_time = state["t_inj"] + 2 * tick < t_accept + rt * 1_000_000
            ctx.check(s_implies(in_time, ok == True), "True when the NETWORK_ACK arrived well within route_timeout")  # noqa: E712
        if t_accept is not None and other is None:  # (forwarding somebody else's frame while waiting takes its own time)
            ctx.check(t1 - t_accept <= rt * 1_000_000 + 6 * tick + 10_000_000,
                      "never blocks longer than route_timeout after the first hop accepted the frame")
    ctx.check(t1 - t0 <= 6 * (node.tx_timeout * 1_000_000 + 40_000_000) + rt * 1_000_000 + 10 * tick,
              "never blocks longer than the transmit and route timeouts allow")
    n_acks = len([e for e in pk if bool(e["data"][6] == NETWORK_ACK)])
    ctx.check(n_acks == 0 or other is not None, "the origin itself emits no NETWORK_ACK")
    ctx.observe("ok", ok)
    ctx.reached()


def o6_two_writes_around_a_move(ctx, w, x, d):
    """state carried across calls: the node writes to D from address W, is moved to X (node_address = X), writes to D again.
    Whether it waits for a NETWORK_ACK, where the frame goes and what it answers is decided by where the node is NOW.
    (Concrete addresses: a route memo keyed by addresses is then an ordinary dict.)"""
    from circuitpython_nrf24l01.rf24_network import RF24Network
    from circuitpython_nrf24l01.network.structs import RF24NetworkHeader
    clock = fresh_env(ctx, tick_ns=1_000_000)
    radio = SimRadio(clock, "node")
    node = RF24Network(FakeSpiDev(radio), 0, Pin(radio), w)
    radio.link = ScriptedLink(lambda n: True)
    mtype = ctx.int("type", 65, 127)
    arrives = bool(ctx.choice("network_ack_arrives", 2))
    state = {"armed": False, "sent0": 0}

    def on_look():
        if state["armed"] and len(radio.sent) > state["sent0"] and radio.listening():
            state["armed"] = False
            a = node.node_address
            radio.inject_rx(1, [d & 0xFF, d >> 8, a & 0xFF, a >> 8, 1, 0, NETWORK_ACK, 0])
    clock.on_look = on_look
    for step, here in enumerate((w, x, w)):
        if step:
            node.node_address = here
        nh = int(NS.next_hop(here, d))
        waits = nh != d
        state["armed"], state["sent0"] = arrives and waits, len(radio.sent)
        t0 = clock.now
        ok = node.send(RF24NetworkHeader(d, mtype), ctx.bytes("body%d" % step, 2))
        dt = clock.now - t0
        state["armed"] = False
        pk = distinct_packets(radio, state["sent0"])
        what = "write #%d (node at %s)" % (step, oct(here))
        ctx.check(len(pk) == 1, what + ": one frame on the air")
        if pk:
            pipe = 5 if bool(NS.is_descendant(d, here)) else int(NS.child_index(here))
            ctx.check(bytes_eq(pk[0]["addr"], NS.phys(nh, pipe, False)), what + ": sent to the next hop as seen from the node's current address")
            ctx.check((pk[0]["data"][0] | (pk[0]["data"][1] << 8)) == here, what + ": the header's origin is the current address")
        if waits:
            ctx.check(ok == arrives, what + ": a route with a relay - True iff the NETWORK_ACK arrived")
            if not arrives:
                ctx.check(dt >= node.route_timeout * 1_000_000, what + ": waited for route_timeout before giving up")
        else:
            ctx.check(ok == True, what + ": direct neighbour - True as soon as the hop accepted the frame")  # noqa: E712
            ctx.check(dt < 20_000_000, what + ": direct neighbour - no NETWORK_ACK is awaited")
        queue_frames(node)
    ctx.reached()


def o2_last_hop(ctx, role, lvl, lf, ld, outage=False):
    clock = fresh_env(ctx)
    radio, node, addr = build_node(ctx, clock, role, lvl)
    ctx.assume(addr != 0o4444)  # the unassigned-node address does not route, by design
    if outage:  # the delivery succeeds only after an outage of symbolic length around tx_timeout (25 ms), or never
        link, outcome = outage_link(ctx, radio, clock, (0, 6, 12, 18, 24, 30, 45, None), only=lambda i: i == 0)
    else:
        link, outcome = per_packet_link(ctx, radio)
    f, d = sym_addr(ctx, "F", lf), sym_addr(ctx, "D", ld)
    ctx.assume(s_and(d != addr, f != d))
    mtype = ctx.int("type", 0, 255)
    ctx.assume(s_and(mtype != 148, mtype != 149, mtype != 150))  # single-frame messages
    fid, res = ctx.int("id", 0, 0xFFFF), ctx.int("reserved", 0, 255)
    body = ctx.bytes("body", 2)
    frame = [f & 0xFF, f >> 8, d & 0xFF, d >> 8, fid & 0xFF, fid >> 8, mtype, res] + blist(body)
    radio.inject_rx(ctx.int("pipe", 1, 5), frame)
    sent0 = len(radio.sent)
    node.update()
    pk = distinct_packets(radio, sent0)
    ctx.check(len(pk) >= 1, "the frame is forwarded")
    if not pk:
        return
    nh = NS.next_hop(addr, d)
    delivered = pk[0]["acked"] == True  # noqa: E712
    if outage:
        delivered = any(e["uid"] == pk[0]["uid"] and e["acked"] for e in radio.sent[sent0:])
    expect_ack = s_and(mtype > 64, mtype < 192, nh == d, f != addr, delivered)
    acks = [e for e in pk[1:]]
    ctx.check(bytes_eq(pk[0]["data"], frame) if len(pk[0]["data"]) == len(frame) else False,
              "the forwarded frame is byte-identical")
    if bool(expect_ack):
        ctx.check(len(acks) == 1, "exactly one NETWORK_ACK for a delivered ack-type frame at the last hop")
        if len(acks) == 1:
            a = acks[0]["data"]
            ctx.check(a[6] == NETWORK_ACK, "it is a NETWORK_ACK")
            ctx.check((a[2] | (a[3] << 8)) == f, "addressed to the origin")
            back = NS.next_hop(addr, f)
            pipe = s_ite(NS.is_descendant(f, addr), 5, NS.child_index(addr))
            ctx.check(bytes_eq(acks[0]["addr"], NS.phys(back, pipe, False)), "sent towards the origin along the tree")
    else:
        ctx.check(len(acks) == 0, "no NETWORK_ACK: other type / not the last hop / delivery failed / own frame / a NETWORK_ACK itself")
    ctx.check(len(queue_frames(node)) == 0, "a routed frame is not handed to the router's application")
    ctx.reached()


def o5_ack_behind_relayed_frame(ctx, lx):
    """the origin is also a relay: while it waits, a child's frame for somebody else arrives and, right behind it in the RX FIFO,
    the awaited NETWORK_ACK; the relayed frame's first attempts meet a short outage (so it is re-sent from the TX FIFO).  The
    NETWORK_ACK did arrive in time, so write() must answer True, and the child's frame must have been forwarded"""
    from circuitpython_nrf24l01.network.structs import RF24NetworkHeader
    clock = fresh_env(ctx, tick_ns=1_000_000)
    radio, node, x = build_node(ctx, clock, "net", lx)
    d = sym_addr(ctx, "D", ctx.choice("dest_level", 4) + 1)
    ctx.assume(s_and(d != x, NS.next_hop(x, d) != d))
    child = x | (ctx.int("child", 1, 5) << (3 * lx))
    ctx.assume(s_not(NS.is_descendant(d, child)))
    link, pick = outage_link(ctx, radio, clock, (0, 15, 30, 45), only=lambda i: i == 1)
    mtype = ctx.int("type", 65, 127)
    state = {"done": False}

    def on_look():
        if not state["done"] and len(radio.sent) >= 1 and radio.listening():
            state["done"] = True
            # a frame from the child to the master (or, from the master's point of view, to another branch) ...
            to = s_ite(x == 0, NS.next_hop(x, d), 0)
            radio.inject_rx(5, [child & 0xFF, child >> 8, to & 0xFF, to >> 8, 7, 0, 3, 0, 0xAB])
            # ... and right behind it the NETWORK_ACK for the frame this node is waiting for
            radio.inject_rx(1, [d & 0xFF, d >> 8, x & 0xFF, x >> 8, 1, 0, NETWORK_ACK, 0])
    clock.on_look = on_look
    ok = node.send(RF24NetworkHeader(d, mtype), ctx.bytes("body", 2))
    ctx.check(state["done"], "the scenario was reached (the node waited while listening)")
    ctx.check(ok == True, "True: a NETWORK_ACK addressed to the sender arrived within route_timeout "  # noqa: E712
                          "(behind a frame that had to be relayed and re-sent meanwhile)")
    fw = [e for e in distinct_packets(radio, 1) if (e["data"][0] | (e["data"][1] << 8)) == child]
    ctx.check(len(fw) == 1, "the child's frame was forwarded once")
    ctx.reached()


def o4_multicast_never_acked(ctx, role, lvl, relay, side):
    """multicasts never cause a NETWORK_ACK: neither at a node that receives (and perhaps relays) one of an ack type, nor at
    the node that sends it (which does not wait for one either)"""
    clock = fresh_env(ctx)
    radio, node, addr = build_node(ctx, clock, role, lvl)
    link, _ = per_packet_link(ctx, radio, always=False)
    node.multicast_relay = relay
    mtype = user_or_system_type(ctx)
    sent0 = len(radio.sent)
    if side == "receiver":
        f = sym_addr(ctx, "F", ctx.choice("origin_level", 5))
        ctx.assume(f != addr)
        fid, res = ctx.int("id", 0, 0xFFFF), ctx.int("reserved", 0, 255)
        body = ctx.bytes("body", 2)
        radio.inject_rx(0, [f & 0xFF, f >> 8, 0o100, 0, fid & 0xFF, fid >> 8, mtype, res] + blist(body))
        node.update()
    else:
        t0 = clock.now
        ok = node.multicast(ctx.bytes("body", 2), mtype, ctx.int("level", 0, 4))
        ctx.check(ok == True, "multicast() returns True")  # noqa: E712
        ctx.check(clock.now - t0 < node.route_timeout * 1_000_000, "multicast() does not wait for a NETWORK_ACK")
    pk = distinct_packets(radio, sent0)
    ctx.check(len(pk) <= 1, "at most one frame is transmitted (the multicast itself or its re-broadcast)")
    for e in pk:
        ctx.check(e["data"][6] != NETWORK_ACK, "a multicast never causes a NETWORK_ACK")
        ctx.check((e["data"][2] | (e["data"][3] << 8)) == 0o100, "whatever is transmitted is the multicast itself")
    ctx.reached()


CHAIN = [0, 0o4, 0o24, 0o324, 0o1324, 0o5324, 0o124, 0o14, 0o1, 0o11]
ROUTES = [(0o1324, 0o14), (0o14, 0o5324), (0o124, 0o11), (0o1, 0o1324), (0o324, 0o4), (0o24, 0o1324), (0o1324, 0)]


def route_of(src, dst):
    path, cur = [src], src
    while cur != dst:
        cur = NS.next_hop(cur, dst)
        path.append(cur)
    return path


def o3_cosim_failing_hop(ctx, src, dst, late=0):
    """whole-system run on a fixed tree of real nodes: ONE symbolic failure - a forward hop whose transmissions are all
    lost, or a node whose NETWORK_ACK relay is lost, or none - for an ack-type message (symbolic type 65..127)"""
    from circuitpython_nrf24l01.rf24_network import RF24Network
    from circuitpython_nrf24l01.network.structs import RF24NetworkHeader
    clock = fresh_env(ctx)
    med = Medium()
    nodes = {}
    for a in CHAIN:
        radio = med.add(SimRadio(clock, oct(a)))
        node = RF24Network(FakeSpiDev(radio), 0, Pin(radio), a)
        nodes[a] = (radio, node)
        med.attach_node(radio, node.update)
    path = route_of(src, dst)
    hops = len(path) - 1
    fail = ctx.choice("failing", 2 * hops)  # 0 none; 1..hops forward hop i; hops+1..2*hops-1 the ack transmission of a relay

    def loss(s, d, pkt, attempt):
        is_ack = pkt.data[6] == NETWORK_ACK
        if 1 <= fail <= hops and not is_ack and s.name == oct(path[fail - 1]):
            return "pkt"
        if fail > hops and is_ack and s.name == oct(path[hops - 1 - (fail - hops - 1)]):
            return "pkt"
        return "ok"
    med.loss = loss
    mtype = ctx.int("type", 65, 127)
    body = ctx.bytes("body", 3)
    rs, ns = nodes[src]
    if late:  # timing jitter: every node may be a few SPI transactions late (far less than route_timeout), symbolically
        symbolic_schedule(ctx, med, late)
    med.running(rs, True)
    ok = ns.send(RF24NetworkHeader(dst, mtype), body)
    med.running(rs, False)
    med.defer = None
    for _ in range(40):
        if not any(st[2] for st in med.nodes.values()):
            break
        med.run_pending()
    ctx.check(not med.errors, "no node raised: %r" % (med.errors[:1],))
    q = queue_frames(nodes[dst][1])
    acks_on_air = [e for e in med.air if e["data"][6] == NETWORK_ACK and e["attempt"] == 0]
    if hops == 1:
        ctx.check(ok == (fail == 0), "direct neighbours: True iff the hop was acknowledged")
        ctx.check(len([e for e in med.air if e["data"][6] == NETWORK_ACK]) == 0, "no NETWORK_ACK between direct neighbours")
    elif fail == 0:
        ctx.check(ok == True, "True: the NETWORK_ACK came back")  # noqa: E712
        ctx.check(len(q) == 1, "delivered once")
        origins = {e["src"] for e in acks_on_air}
        ctx.check(oct(path[-2]) in origins, "the node that delivered to the destination sent the NETWORK_ACK")
    elif fail <= hops:
        ctx.check(ok == False, "False: a hop never delivered the frame, so no NETWORK_ACK can arrive")  # noqa: E712
        ctx.check(len(q) == 0, "not delivered")
        ctx.check(len(acks_on_air) == 0, "no NETWORK_ACK without delivery")
    else:
        ctx.check(ok == False, "False: the NETWORK_ACK was lost on its way back (believed only if received)")  # noqa: E712
        ctx.check(len(q) == 1, "delivered once nevertheless")
    for a, (radio, node) in nodes.items():
        if a != dst:
            ctx.check(len(queue_frames(node)) == 0, "nobody else's queue")
        listening_ok(ctx, radio, a, "node %s afterwards" % oct(a))
    ctx.reached()


def jobs(tier):
    out = []
    combos = [(a, b) for a in range(5) for b in range(5) if (a, b) != (0, 0)]
    if tier == "quick":
        combos = combos[::2]
    ticks = (1, 7, 20)
    for i, (lx, ld) in enumerate(combos):
        for tk in ((ticks[i % 3],) if tier == "quick" else ticks):
            out.append(Job("O1-origin-waits-and-believes", o1_origin, dict(lx=lx, ld=ld, ack_to="self", tick_ms=tk), cost=50, shards=4))
    for i, (lx, ld) in enumerate(combos[::6] if tier == "quick" else combos[::2]):
        out.append(Job("O1-origin-ignores-foreign-ack", o1_origin, dict(lx=lx, ld=ld, ack_to="other", tick_ms=ticks[i % 3]), cost=50, shards=4))
        out.append(Job("O1-origin-ignores-foreign-ack", o1_origin, dict(lx=lx, ld=ld, ack_to="other", tick_ms=ticks[i % 3], multicast=False),
                       cost=50, shards=4))
    for lx, ld in (((2, 3),) if tier == "quick" else ((0, 2), (2, 3), (3, 1))):
        out.append(Job("O1-origin-after-re-assigning-its-address", o1_origin, dict(lx=lx, ld=ld, ack_to="self", tick_ms=7, readdress=True),
                       cost=50, shards=4))
    for lx, ld in (((1, 3), (2, 2)) if tier == "quick" else ((0, 2), (1, 3), (2, 2), (3, 1), (2, 4))):
        out.append(Job("O1-origin-reuses-a-frame-object", o1_origin, dict(lx=lx, ld=ld, ack_to="self", tick_ms=7, reuse=True), cost=80, shards=4))
    if tier == "thorough":
        for lx, ld in ((1, 2), (2, 0), (3, 3)):
            out.append(Job("O1-origin-mesh-node", o1_origin, dict(lx=lx, ld=ld, ack_to="self", tick_ms=3, role="mesh"), cost=50, shards=4))
    for lx, ld in (((1, 3), (2, 0)) if tier == "quick" else ((0, 2), (1, 3), (2, 0), (3, 3), (2, 4))):
        out.append(Job("O1-origin-first-hop-through-an-outage", o1_origin, dict(lx=lx, ld=ld, ack_to="self", tick_ms=1, outage=True), cost=120, shards=6))
    for role, lvl, lf, ld in ((("net", 1, 3, 2), ("routing", 2, 0, 3)) if tier == "quick" else
                              (("net", 1, 3, 2), ("routing", 2, 0, 3), ("mesh", 3, 1, 4), ("net", 0, 2, 1))):
        out.append(Job("O2-last-hop-delivery-through-an-outage", o2_last_hop, dict(role=role, lvl=lvl, lf=lf, ld=ld, outage=True), cost=60, shards=2))
    for w, x, d in (((0o3, 0o4, 0o13), (0o4, 0o3, 0o13), (0o12, 0o2, 0o22), (0, 0o1, 0o21)) if tier == "quick" else
                    ((0o3, 0o4, 0o13), (0o4, 0o3, 0o13), (0o12, 0o2, 0o22), (0, 0o1, 0o21), (0o21, 0o121, 0o1), (0o5, 0o15, 0o115), (0o115, 0o5, 0o15))):
        out.append(Job("O6-two-writes-around-a-move", o6_two_writes_around_a_move, dict(w=w, x=x, d=d), cost=900))  # (concrete and instant: scheduled first)
    for src, dst in ROUTES:
        out.append(Job("O3-co-simulation-one-failing-hop", o3_cosim_failing_hop, dict(src=src, dst=dst), cost=60))
    for src, dst in (ROUTES[:3] if tier == "quick" else ROUTES):
        out.append(Job("O3-co-simulation-one-failing-hop-symbolic-schedule", o3_cosim_failing_hop,
                       dict(src=src, dst=dst, late=4 if tier == "quick" else 6), cost=120, shards=4))
    roles = ("routing", "net", "mesh")
    if tier == "quick":
        rc = [(r, l, lf, ld) for r in roles for l in range(5) for lf in range(5) for ld in range(5)
              if not (r == "mesh" and l == 0) and (lf, ld) != (0, 0) and (l, ld) != (0, 0) and (l * 7 + lf * 3 + ld + len(r)) % 12 == 0]
    else:
        rc = [(r, l, lf, ld) for r in roles for l in range(5) for lf in range(5) for ld in range(5)
              if not (r == "mesh" and l == 0) and (lf, ld) != (0, 0) and (l, ld) != (0, 0) and (l + lf + ld) % 2 == 0]
    for r, l in ((("net", 1), ("net", 4), ("routing", 2), ("mesh", 3), ("master", 0)) if tier == "quick" else
                 [(r, l) for r in ("net", "routing", "mesh") for l in range(0 if r != "mesh" else 1, 5)] + [("master", 0)]):
        for relay in (False, True):
            out.append(Job("O4-multicasts-never-cause-a-NETWORK_ACK", o4_multicast_never_acked, dict(role=r, lvl=l, relay=relay, side="receiver"), cost=10))
        if r != "routing":
            out.append(Job("O4-multicasts-never-cause-a-NETWORK_ACK", o4_multicast_never_acked, dict(role=r, lvl=l, relay=False, side="sender"), cost=10))
    for lx in ((1, 2) if tier == "quick" else (0, 1, 2, 3)):
        out.append(Job("O5-ack-queued-behind-a-relayed-frame", o5_ack_behind_relayed_frame, dict(lx=lx), cost=40, shards=2))
    for r, l, lf, ld in rc:
        out.append(Job("O2-last-hop-acks-once", o2_last_hop, dict(role=r, lvl=l, lf=lf, ld=ld), cost=20, shards=2))
    return out


META = {
    "bounds": {"quick": "O1: 12 of the 24 sender/destination level pairs with every digit symbolic; type "
                        "symbolic 0..255 minus {128,130,131,148-150,193-198}; first-hop outcome symbolic; tx_timeout 5..30 ms, "
                        "route_timeout 5..40 ms symbolic, clock tick 1 / 7 / 20 ms (constant within a run, enumerated); NETWORK_ACK injected at "
                        "a symbolic clock look 0..69 or never, addressed to the sender or to another node; O2: one twelfth of all (role, level, "
                        "origin level, destination level) combinations with symbolic addresses, type 0..255 except fragments, "
                        "symbolic id/reserved/body/pipe, symbolic delivery outcome; O3: 7 routes (1..8 hops) over a fixed 10-node tree, symbolic type 65..127 and "
                        "contents, every single failing forward hop / acknowledgement relay",
               "thorough": "all 24 level pairs with every tick in O1 (also from a mesh node), half of all role x level x level x level "
                           "combinations in O2"},
    "outside": ["O6 (two writes around a move) uses concrete address triples (4 quick / 7 thorough), O1/O2 through an outage use fixed time-outs (tx 12/25 ms, route 40 ms) and 7-8 outage lengths", "fragmented messages (the statement is about single-frame messages)", "clock increments that vary within one run",
                "the exact boundary: an acknowledgement arriving within two ticks of the deadline may go either way",
                "schedules of the co-simulation other than the cooperative one and 2**K hold-back schedules (K = 4 quick / 6 thorough, each a few SPI transactions late)", "more than one failure per message in the co-simulation; trees other than the co-simulated one (the per-node steps cover all addresses)"],
    "assumptions": ["a frame can only be received while the radio listens (an injection at a look where it does not is lost)",
                    "one outcome per transmitted packet; virtual clock with a constant symbolic tick"],
}

if __name__ == "__main__":
    import sys
    sys.exit(main(sys.modules[__name__]))
