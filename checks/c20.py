"""C20 - rf24_lite honours the same link-level contract as RF24.

The lite driver (rf24_lite.RF24, driven through the real adafruit_bus_device.SPIDevice on a
busio-style fake bus) is put through the C01 / C02 / C03 / C08 / C10 obligations restricted to
the API it shares with the full driver, within its documented reductions
(docs/troubleshooting.rst "About the lite version": dynamic payloads and payload length are
global, auto-ack and 2-byte CRC always on, no `with`, load_ack() never raises):
 L1  TX framing: exactly one W_TX_PAYLOAD with the padded / truncated / unchanged bytes, caller's
     buffer untouched (inputs of 0 or > 32 bytes are rejected with ValueError in both modes);
 L2  link and interoperability on the loss-free medium: lite -> full, full -> lite, lite -> lite,
     every receiving pipe, dynamic or static width, symbolic channel / addresses / contents;
 L3  send()/resend() outcomes under symbolic loss schedules (the C02 harness with the lite driver);
 L4  configuration attributes program the documented encoding (ghost register file) and read back;
 L5  RX/TX switching keeps the user's pipe-0 address (the C08 harness with the lite driver);
 L6  FIFO / status accessors (the C10 harness with the lite driver);
 L7  load_ack() accepts exactly buffers of 1..32 bytes for pipes 0..5 (TX FIFO not full) and
     otherwise leaves the TX FIFO untouched, never raising.
"""
from checks.common import *  # noqa
from checks import c02, c08, c10
from checks.c03 import clamp, legal_writes
from env.simradio import CONFIG_REGS, ADDR_REGS

PROPERTY = "C20"


def l1_framing(ctx, n, kind, entry):
    clock = fresh_env(ctx)
    radio, nrf = new_lite(clock)
    radio.link = ScriptedLink(lambda k: True)
    pl = ctx.int("pl_len", 1, 32)
    dyn = bool(ctx.choice("dynamic", 2))
    ask = ctx.bit("ask_no_ack")
    nrf.payload_length = pl
    nrf.dynamic_payloads = dyn
    nrf.listen = False
    buf = ctx.bytes("buf", n, mutable=(kind == "bytearray"))
    orig = blist(buf)
    mark = len(radio.log)
    try:
        res = nrf.write(buf, ask) if entry == "write" else nrf.send(buf, ask)
    except ValueError:
        ctx.check(n == 0 or n > 32, "ValueError only for a payload of 0 or more than 32 bytes")
        ctx.check(len([1 for c, d, *_ in radio.log[mark:] if c in (0xA0, 0xB0)]) == 0, "nothing reached the radio before the ValueError")
        ctx.check(len(buf) == n and bytes_eq(buf, orig), "caller's buffer untouched")
        ctx.reached()
        return
    ctx.check(1 <= n <= 32, "a payload of 0 or more than 32 bytes must be rejected")
    tx = [(c, d) for c, d, *_ in radio.log[mark:] if c in (0xA0, 0xB0)]
    ctx.check(len(tx) == 1, "exactly one payload command")
    exp = orig if dyn else pad_trunc(orig, ctx.conc(pl))
    for c, d in tx:
        ctx.check(c == (0xA0 | (ask << 4)), "opcode carries the ask_no_ack bit")
        ctx.check(len(d) == len(exp) and bytes_eq(d, exp), "payload = padded / truncated / unchanged input")
    ctx.check(len(buf) == n and bytes_eq(buf, orig), "caller's buffer untouched")
    ctx.reached()


def l2_link(ctx, tx_kind, rx_kind, pipe, pl, count, getters=None):
    dynamic = pl is None
    clock = fresh_env(ctx)
    med = Medium()
    ra, a = new_lite(clock, "A") if tx_kind == "lite" else new_rf24(clock, "A")
    rb, b = new_lite(clock, "B") if rx_kind == "lite" else new_rf24(clock, "B")
    med.add(ra)
    med.add(rb)
    chan = ctx.int("channel", 0, 125)
    addr, base = ctx.bytes("addr", 5), ctx.bytes("base", 5)
    for n in (a, b):
        n.channel = chan
        n.dynamic_payloads = dynamic
        if not dynamic:
            n.payload_length = pl
    if pipe < 2:
        b.open_rx_pipe(pipe, addr)
        target = blist(addr)
    else:
        ctx.assume(addr[0] != base[0])
        b.open_rx_pipe(1, base)
        b.open_rx_pipe(pipe, addr[:1])
        target = [addr[0]] + blist(base)[1:]
    b.listen = True
    a.listen = False
    from vsym.core import SBytes
    a.open_tx_pipe(SBytes(target) if ctx.symbolic else bytes(target))
    if getters:  # both applications read every read-only attribute first (ascending / descending pipe order)
        touch_rf24_getters(a, getters == "down")
        touch_rf24_getters(b, getters == "down")
    lens = [(3, 32, 1)[i] for i in range(count)]
    bufs = [ctx.bytes("msg%d" % i, ln) for i, ln in enumerate(lens)]
    res = a.send(list(bufs)) if count > 1 else [a.send(bufs[0])]
    for r in res:
        ctx.check(r == True, "send() reports success on a loss-free compatible link")  # noqa: E712
    for i, x in enumerate(bufs):
        exp = blist(x) if dynamic else pad_trunc(blist(x), pl)
        ctx.check(b.available() == True, "peer has the payload")  # noqa: E712
        ctx.check(b.pipe == pipe, "attributed to the pipe whose address it was sent to")
        ctx.check(b.any() == len(exp), "any() = payload length")
        got = b.read()
        ctx.check(got is not None and len(got) == len(exp) and bytes_eq(got, exp), "peer's read() returns the payload byte-for-byte")
    ctx.check(b.available() == False, "exactly once")  # noqa: E712
    ctx.check(not ra.unspecified and not rb.unspecified, "no use of radio behaviour the specification leaves open")
    ctx.reached()


def l3_ack_payload_interop(ctx, tx_kind, rx_kind):
    """ACK payloads across the two drivers: loaded with load_ack() on the receiver, returned by send() on the sender"""
    clock = fresh_env(ctx)
    med = Medium()
    ra, a = new_lite(clock, "A") if tx_kind == "lite" else new_rf24(clock, "A")
    rb, b = new_lite(clock, "B") if rx_kind == "lite" else new_rf24(clock, "B")
    med.add(ra)
    med.add(rb)
    for n in (a, b):
        n.ack = True
    b.open_rx_pipe(1, b"1Node")
    b.listen = True
    ackpl = ctx.bytes("ackpl", 3)
    ctx.check(b.load_ack(ackpl, 1) == True, "load_ack() accepts a 3-byte buffer for pipe 1")  # noqa: E712
    a.listen = False
    a.open_tx_pipe(b"1Node")
    msg = ctx.bytes("msg", 2)
    res = a.send(msg)
    ctx.check(not isinstance(res, bool) and res is not None and len(res) == 3 and bytes_eq(res, ackpl), "send() returns the peer's ACK payload")
    got = b.read()
    ctx.check(got is not None and bytes_eq(got, msg), "the payload arrived")
    ctx.reached()


LITE_CALLS = ("channel", "data_rate", "pa_level", "arc", "ard", "dyn", "payload_length", "ack", "power", "listen", "address_length",
              "interrupt_config", "open_rx_pipe", "close_rx_pipe", "open_tx_pipe", "write")


def l4_config(ctx, calls):
    clock = fresh_env(ctx)
    radio, nrf = new_lite(clock)
    legal_writes(ctx, radio, 0, "RF24()")
    g = {k: radio.reg[k] for k in CONFIG_REGS}
    ga = {k: list(radio.addr[k]) for k in ADDR_REGS}
    user_p0 = None
    for step, name in enumerate(calls):
        t = "%s%d" % (name, step)
        mark = len(radio.log)
        before, before_a = dict(g), {k: list(v) for k, v in ga.items()}
        raised = None
        documented = True
        try:
            if name == "channel":
                v = ctx.int(t, -300, 300)
                valid = s_and(v >= 0, v <= 125)
                nrf.channel = v
                g[5] = v
            elif name == "data_rate":
                v = (1, 2, 250)[ctx.choice(t, 3)]
                valid = True
                nrf.data_rate = v
                g[6] = (g[6] & 0xD7) | {1: 0, 2: 8, 250: 0x20}[v]
            elif name == "pa_level":
                v = ctx.int(t, -20, 2)
                valid = s_or(v == -18, v == -12, v == -6, v == 0)
                nrf.pa_level = v
                g[6] = (g[6] & 0xF8) | s_ite(v == -18, 0, s_ite(v == -12, 2, s_ite(v == -6, 4, 6))) | 1
            elif name == "arc":
                v = ctx.int(t, -300, 300)
                valid = True
                nrf.arc = v
                g[4] = (g[4] & 0xF0) | clamp(v, 0, 15)
            elif name == "ard":
                v = ctx.int(t, -300, 5000)
                valid = True
                nrf.ard = v
                g[4] = (g[4] & 0x0F) | (((clamp(v, 250, 4000) - 250) // 250) << 4)
            elif name == "dyn":
                v = bool(ctx.choice(t, 2))
                valid = True
                nrf.dynamic_payloads = v
                g[0x1C] = 0x3F if v else 0
                g[0x1D] = (g[0x1D] & 3) | (4 if v else 0)
            elif name == "payload_length":
                v = ctx.int(t, -300, 300)
                valid = True
                nrf.payload_length = v
                for i in range(6):
                    g[0x11 + i] = clamp(v, 1, 32)
            elif name == "ack":
                v = bool(ctx.choice(t, 2))
                valid = True
                nrf.ack = v
                if v:
                    g[0x1C] = 0x3F
                    g[0x1D] = (g[0x1D] & 1) | 6
                else:
                    g[0x1D] = g[0x1D] & 5
            elif name == "power":
                v = bool(ctx.choice(t, 2))
                valid = True
                nrf.power = v
                g[0] = (g[0] & 0x7D) | (2 if v else 0)
            elif name == "listen":
                v = bool(ctx.choice(t, 2))
                valid = True
                nrf.listen = v
                g[0] = (g[0] & 0xFC) | 2 | int(v)
                if v:
                    if user_p0 is not None:
                        ga[0x0A][:len(user_p0)] = user_p0
                    else:
                        g[2] = g[2] & 0x3E
                else:
                    g[2] = g[2] | 1
            elif name == "address_length":
                v = ctx.int(t, -300, 300)
                valid = True
                nrf.address_length = v
                g[3] = s_ite(s_and(v >= 3, v <= 5), v - 2, 0)
            elif name == "interrupt_config":
                a3 = [ctx.choice("%s_%d" % (t, i), 2) for i in range(3)]
                valid = True
                nrf.interrupt_config(bool(a3[0]), bool(a3[1]), bool(a3[2]))
                g[0] = (g[0] & 0x0F) | ((1 - a3[0]) << 6) | ((1 - a3[1]) << 5) | ((1 - a3[2]) << 4)
            elif name == "open_rx_pipe":
                p = ctx.int(t + "p", -2, 7)
                addr = ctx.bytes(t + "a", 5)
                valid = s_and(p >= 0, p <= 5)
                nrf.open_rx_pipe(p, addr)
                pc = ctx.conc(p)
                if pc < 2:
                    ga[0x0A + pc][:5] = blist(addr)
                    if pc == 0:
                        user_p0 = blist(addr)
                else:
                    g[0x0A + pc] = addr[0]
                g[2] = g[2] | (1 << pc)
            elif name == "close_rx_pipe":
                p = ctx.int(t, -2, 7)
                valid = s_and(p >= 0, p <= 5)
                nrf.close_rx_pipe(p)
                pc = ctx.conc(p)
                g[2] = g[2] & ~(1 << pc)
                if pc == 0:
                    user_p0 = None
            elif name == "write":
                # write() wakes the radio up / leaves RX mode by itself: PWR_UP = 1, PRIM_RX = 0, every other CONFIG bit untouched
                valid = True
                nrf.write(b"wake")
                g[0] = s_ite((g[0] & 3) != 2, (g[0] & 0x7C) | 2, g[0])
            elif name == "open_tx_pipe":
                addr = ctx.bytes(t, 5)
                valid = True
                nrf.open_tx_pipe(addr)
                ga[0x10][:5] = blist(addr)
                ga[0x0A] = list(ga[0x10])  # pipe 0 is appropriated with the (complete) TX address for ACK reception
                g[2] = s_ite((g[0] & 1) == 0, g[2] | 1, g[2])  # ... and enabled when the radio is in TX mode
        except ValueError as e:
            raised = e
        what = "%s#%d" % (name, step)
        if raised is not None:
            ctx.check(s_not(valid), what + ": raises only for input outside the documented domain")
            g, ga = before, before_a
            ctx.check(len([1 for c, d, *_ in radio.log[mark:] if 0x20 <= c < 0x40]) == 0, what + ": nothing written before the rejection")
        else:
            ctx.check(valid, what + ": input outside the documented domain must be rejected")
        legal_writes(ctx, radio, mark, what)
        for k in CONFIG_REGS:
            ctx.check(radio.reg[k] == g[k], "%s: register 0x%02X has the documented value and no other field moved" % (what, k))
        for k in ADDR_REGS:
            for i in range(5):
                ctx.check(radio.addr[k][i] == ga[k][i], "%s: address register 0x%02X byte %d" % (what, k, i))
    # getters
    ctx.check(nrf.channel == g[5], "getter channel")
    dr = g[6] & 0x28
    ctx.check(nrf.data_rate == s_ite(dr == 0, 1, s_ite(dr == 8, 2, 250)), "getter data_rate")
    ctx.check(nrf.pa_level == (3 - ((g[6] & 6) >> 1)) * -6, "getter pa_level")
    ctx.check(nrf.arc == (g[4] & 0x0F), "getter arc")
    ctx.check(nrf.ard == ((g[4] >> 4) & 0x0F) * 250 + 250, "getter ard")
    ctx.check(nrf.dynamic_payloads == ((g[0x1D] & 4) == 4), "getter dynamic_payloads")
    ctx.check(nrf.payload_length == g[0x11], "getter payload_length")
    ctx.check(nrf.power == ((g[0] & 2) != 0), "getter power")
    ctx.check(nrf.listen == ((g[0] & 3) == 3), "getter listen")
    ctx.check(nrf.address_length == g[3] + 2, "getter address_length")
    ctx.check(s_truth(nrf.ack) == s_and((g[0x1D] & 6) == 6, g[0x1C] != 0), "getter ack")
    ctx.reached()


def l7_load_ack(ctx, n, fifo):
    clock = fresh_env(ctx)
    radio, nrf = new_lite(clock)
    nrf.listen = True
    for i in range(fifo):
        radio.tx_fifo.append(["ack", 1, [i], "pre#%d" % i])
    nrf.update()
    pipe = ctx.int("pipe", -2, 7)
    buf = ctx.bytes("buf", n)
    before = [list(e) for e in radio.tx_fifo]
    mark = len(radio.log)
    ok = nrf.load_ack(buf, pipe)  # never raises
    want = s_and(n >= 1, n <= 32, pipe >= 0, pipe <= 5, fifo < 3)
    ctx.check(s_truth(ok) == want, "load_ack() accepts exactly buffers of 1..32 bytes for pipes 0..5 (TX FIFO not full)")
    cmds = [(c, d) for c, d, *_ in radio.log[mark:] if 0xA0 <= c <= 0xB0]
    if bool(want):
        ctx.check(len(cmds) == 1 and cmds[0][0] == (0xA8 | pipe) and len(cmds[0][1]) == n and bytes_eq(cmds[0][1], buf),
                  "one W_ACK_PAYLOAD for that pipe with the buffer")
        ctx.check(len(radio.tx_fifo) == fifo + 1, "the payload is in the TX FIFO")
    else:
        ctx.check(len(cmds) == 0, "otherwise no payload command reaches the radio")
        ctx.check(len(radio.tx_fifo) == len(before), "otherwise the TX FIFO is untouched")
    ctx.reached()


def l7_back_to_back(ctx):
    """four load_ack() calls in a row with no other SPI traffic in between, then one more after a level became free"""
    clock = fresh_env(ctx)
    radio, nrf = new_lite(clock)
    nrf.listen = True
    bufs = [ctx.bytes("b%d" % i, 1 + i) for i in range(5)]
    pipe = ctx.int("pipe", 0, 5)
    res = [nrf.load_ack(bufs[i], pipe) for i in range(4)]
    ctx.check(s_and(res[0] == True, res[1] == True, res[2] == True), "the first three ACK payloads are accepted")  # noqa: E712
    ctx.check(s_truth(res[3]) == False, "the fourth is refused: the TX FIFO is full")  # noqa: E712
    ctx.check(len(radio.tx_fifo) == 3, "the TX FIFO holds exactly the three accepted payloads")
    for i in range(3):
        ctx.check(len(radio.tx_fifo[i][2]) == 1 + i and bytes_eq(radio.tx_fifo[i][2], bufs[i]), "in order, unmodified")
    ctx.check(not radio.unspecified, "nothing is written into a full FIFO")
    radio.tx_fifo.pop(0)  # a received packet consumed the oldest ACK payload (no SPI traffic from the driver meanwhile)
    ctx.check(s_truth(nrf.load_ack(bufs[4], pipe)) == True, "a valid buffer is accepted again as soon as a level is free")  # noqa: E712
    ctx.check(len(radio.tx_fifo) == 3, "and it is in the FIFO")
    ctx.reached()


LITE_SWITCH_OPS = ("open_rx0_5", "open_rx0_3", "close_rx0", "open_tx_5", "open_tx_3", "listen_on", "listen_off")


def jobs(tier):
    out = []
    lens = (0, 1, 2, 31, 32, 33, 40) if tier == "quick" else range(0, 41)
    for n in lens:
        for kind in ("bytes", "bytearray"):
            for entry in ("write", "send"):
                out.append(Job("L1-tx-framing", l1_framing, dict(n=n, kind=kind, entry=entry), cost=2))
    kinds = (("lite", "full"), ("full", "lite"), ("lite", "lite"))
    for tk, rk in kinds:
        for pipe in range(6):
            for pl in ((None, 5) if tier == "quick" else (None, 1, 5, 32)):
                out.append(Job("L2-link-interop", l2_link, dict(tx_kind=tk, rx_kind=rk, pipe=pipe, pl=pl, count=1), cost=4))
        out.append(Job("L2-link-interop", l2_link, dict(tx_kind=tk, rx_kind=rk, pipe=1, pl=None, count=3), cost=10))
        out.append(Job("L2-link-interop", l2_link, dict(tx_kind=tk, rx_kind=rk, pipe=0, pl=32, count=3), cost=10))
        out.append(Job("L3-ack-payload-interop", l3_ack_payload_interop, dict(tx_kind=tk, rx_kind=rk), cost=4))
        out.append(Job("L2-link-interop-after-reading-every-getter", l2_link,
                       dict(tx_kind=tk, rx_kind=rk, pipe=(1, 4, 0)[len(out) % 3], pl=(None, 5, None)[len(out) % 3], count=2, getters=("up", "down")[len(out) % 2]), cost=8))
    # L3: the C02 harness with the lite driver (auto-ack cannot be switched off there)
    base, ackm = (True, False, 0, False), (True, False, 2, False)
    plan = [(("send",), 1, 15, [base, (True, False, 0, True), (True, True, 0, False), ackm, (True, False, 1, True)]),
            (("send",), 3, 4, [base, ackm]), (("send", "send"), 1, 3, [base, ackm]), (("send", "resend"), 1, 3, [base, ackm]),
            (("sendlist",), 1, 3, [base, ackm, (True, False, 1, True)]), (("sendlist",), 0, 2, [(True, False, 2, "mix")]), (("resend",), 0, 3, [base]), (("send", "resend", "send"), 0, 2, [base]),
            (("send", "send"), 0, 2, [(True, False, 2, "mix")]), (("send", "send", "send"), 0, 1, [(True, False, 2, "mix")]),
            (("send", "send", "resend"), 0, 1, [(True, False, 2, "mix")])]
    if tier == "thorough":
        plan += [(("send",), 3, 15, [base, ackm]), (("send", "send"), 3, 7, [base, ackm]), (("send", "resend"), 3, 7, [base, ackm]),
                 (("send", "send", "send"), 1, 3, [base]), (("send", "send", "send"), 0, 3, [(True, False, 2, "mix")]),
                 (("send", "resend", "send"), 0, 2, [(True, False, 2, "mix")])]
    for i, (hist, fr, arc, modes) in enumerate(plan):
        for aa0, ask, ackpl, so in modes:
            out.append(Job("L3-send-resend-history", c02.h_history,
                           dict(hist=list(hist), fr_max=fr, arc_max=arc, aa0=aa0, ask=ask, ackpl=ackpl, send_only=so,
                                ard=(250, 1500, 4000)[i % 3], driver="lite", **({"ackpl_opt": True} if so == "mix" else {})), cost=(fr + 1) * arc * len(hist) ** 2))
    # L4
    seqs = [(c,) for c in LITE_CALLS]
    pairs = [(a, b) for a in LITE_CALLS for b in LITE_CALLS]
    seqs += pairs if tier == "thorough" else [p for i, p in enumerate(pairs) if i % 3 == 0 or p[0] in ("listen", "ack", "open_rx_pipe") or p[1] == "write"
                                              or p[0] == p[1]]  # (the same setter twice: a field set and then changed back)
    seqs += [("open_rx_pipe", "open_tx_pipe", "listen"), ("open_rx_pipe", "close_rx_pipe", "listen"), ("ack", "dyn", "payload_length")]
    for s in seqs:
        out.append(Job("L4-configuration", l4_config, dict(calls=list(s)), cost=len(s)))
    # L5: the C08 harness with the lite driver
    for a in LITE_SWITCH_OPS:
        for b in LITE_SWITCH_OPS:
            out.append(Job("L5-switching-history", c08.h_history,
                           dict(first=[a, b], depth=4 if tier == "quick" else 5, aw=5, driver="lite", ops=list(LITE_SWITCH_OPS)), cost=10))
        out.append(Job("L5-switching-history", c08.h_history, dict(first=[a], depth=3, aw=3, driver="lite", ops=list(LITE_SWITCH_OPS)), cost=5))
    # L6: the C10 harness with the lite driver
    ops = [o for o in c10.OPS if o != "last_tx_arc"]
    seqs = [(o,) for o in ops] + [(a, b) for a in ("read", "clear", "flush_rx") for b in ops] + [(a, "read") for a in ops]
    if tier == "thorough":
        seqs = [(o,) for o in ops] + [(a, b) for a in ops for b in ops]
    for s in sorted(set(seqs)):
        for role in ("rx", "tx"):
            out.append(Job("L6-accessor-history", c10.h_history, dict(ops=list(s), role=role, driver="lite"), cost=len(s)))
    # L7
    out.append(Job("L7-load_ack-back-to-back", l7_back_to_back, {}, cost=3))
    for n in ((0, 1, 2, 31, 32, 33) if tier == "quick" else range(0, 35)):
        for fifo in (0, 2, 3):
            out.append(Job("L7-load_ack-domain", l7_load_ack, dict(n=n, fifo=fifo), cost=2))
    return out


META = {
    "bounds": {"quick": "L1 as C01-O1 (lengths 0,1,2,31,32,33,40; bytes/bytearray; write/send; symbolic contents, static length 1..32, "
                        "dynamic on/off, ask_no_ack); L2: lite->full, full->lite, lite->lite for every pipe, dynamic and static width 5 "
                        "(plus 3-payload runs), symbolic channel / 10 address bytes / contents; ACK payload across the drivers; L3: the "
                        "C02 histories (depth <= 3, arc <= 15, force_retry <= 3, ACK payloads, send_only per call); L4: every lite "
                        "configuration call alone and a third of all ordered pairs + 3 triples against a ghost register file; L5: all "
                        "7^4 switching histories of depth 4 (address_length 5) and 7^3 at address_length 3; L6: the C10 single calls and "
                        "pairs; L7: buffer lengths 0,1,2,31,32,33 x symbolic pipe -2..7 x TX FIFO occupancy 0/2/3",
               "thorough": "all lengths, all pairs, depth-5 switching histories, every load_ack length 0..34"},
    "outside": ["what the C01/C02/C03/C08/C10 checks list as outside", "API the lite driver does not have (with, per-pipe "
                "settings, crc, auto_ack, carrier wave, allow_ask_no_ack, last_tx_arc, set/get_auto_retries)",
                "a static payload of 0 or more than 32 bytes is rejected with ValueError by the lite driver instead of being padded / "
                "truncated (input validation stricter than the full driver's; nothing reaches the radio)"],
    "assumptions": ["the lite driver is driven through the real adafruit_bus_device.SPIDevice on a busio-style fake bus",
                    "SimRadio / Medium / ScriptedLink as in C01 / C02"],
}

if __name__ == "__main__":
    import sys
    sys.exit(main(sys.modules[__name__]))
