"""C19 - received BLE packets decode to what was advertised; all else is ignored safely.

O1  round trip on the medium: a real FakeBLE advertises (name, PA level, battery level,
    temperature given as the wire integer, Eddystone URL + TX power, raw chunks - symbolic
    values), a second real FakeBLE on the same channel receives: exactly one queue element with
    the sender's MAC, name, PA level and every service-data value equal to what was advertised;
    also with an independent reference encoder (specs/ble_spec.adv_pdu) as the sender.
O2  robustness: CRC-valid packets BY CONSTRUCTION (symbolic payload, enumerated length byte, CRC
    appended with the real function so that validity is a same-term comparison) carrying
    ADVERSARIAL data structures: available() never raises and queues one element with the MAC;
    packets whose length byte is out of range or whose CRC field differs are not queued; 32
    ARBITRARY received bytes never make available() raise; read() returns elements in arrival
    order, each once.
O3  bit errors: solver lemma - the per-byte CRC step of the real crc24_ble is GF(2)-affine in
    (state, byte) - which with C18's chain law makes the error syndrome independent of the data;
    the 1- and 2-bit error patterns outside the length byte are then pushed through the real
    receive path on one packet per length (finite enumeration, reported as such).
"""
from checks.common import *  # noqa
from checks.c18 import fb, make_ble
from specs import ble_spec as BS
from vsym.core import SBytes, SReal

PROPERTY = "C19"


def two_ble(ctx, urandom):
    clock = fresh_env(ctx, urandom=urandom)
    med = Medium()
    rt, tx = make_ble(ctx, clock, med.add(SimRadio(clock, "tx")))
    rr, rx = make_ble(ctx, clock, med.add(SimRadio(clock, "rx")))
    return clock, med, rt, tx, rr, rx


def mk(ctx, vals):
    return SBytes(vals) if ctx.symbolic else bytes(vals)


def o1_roundtrip(ctx, what, hops, name_len=5, leave_block=False):
    m = fb()
    macs = []

    def urandom(n):
        macs.append(blist(ctx.bytes("urandom%d" % len(macs), n)))
        return mk(ctx, macs[-1])
    clock, med, rt, tx, rr, rx = two_ble(ctx, urandom)
    mac = blist(ctx.bytes("mac", 6))
    with rx:
        for _ in range(hops):
            rx.hop_channel()
        rx.listen = True
        rr_ce = rr.ce
        with_tx = tx
        # the sender shares nothing with the receiver but the air: its own radio, its own `with`
        tx._ce_pin.value = False
        tx.__enter__()
        for _ in range(hops):
            tx.hop_channel()
        tx.mac = mk(ctx, mac)
        exp = {"name": None, "pa": None, "data": []}
        chunks = []
        if what == "name+battery":
            name = blist(ctx.bytes("name", name_len))
            for c in name:
                ctx.assume(c < 128)  # ASCII: decoded as str
            tx.name = mk(ctx, name)
            exp["name"] = name
            if leave_block:
                # the name belongs to the block it was set in: after leaving and re-entering, the advertisement carries no name
                # (and every length in it is computed without one)
                tx.__exit__()
                tx.__enter__()
                ctx.check(tx.name is None, "leaving the block forgets the name")
                exp["name"] = None
            bat = m.BatteryServiceData()
            lvl = ctx.int("battery", 0, 255)
            bat.data = lvl
            chunks.append(m.chunk(bat.buffer))
            exp["data"].append(("battery", lvl))
        elif what == "pa+temperature":
            pa = (-18, -12, -6, 0)[ctx.choice("pa", 4)]
            tx.pa_level = pa
            tx.show_pa_level = True
            exp["pa"] = pa
            t = m.TemperatureServiceData()
            h = ctx.int("temp_hundredths", -30000, 30000)
            wire = h & 0xFFFFFF
            t.data = mk(ctx, [wire & 0xFF, (wire >> 8) & 0xFF, (wire >> 16) & 0xFF, 0xFE])  # = int(value * 100) & 0xFFFFFF, exponent -2
            chunks.append(m.chunk(t.buffer))
            exp["data"].append(("temperature", h))
        elif what == "url":
            u = m.UrlServiceData()
            host = ctx.str("host", 4, 97, 122)
            pre = m.UrlServiceData.codex_prefix[ctx.choice("scheme", 4)]
            suf = m.UrlServiceData.codex_suffix[ctx.choice("suffix", 14)]
            url = pre + host + suf
            u.data = url
            p1m = ctx.int("tx_power", -128, 127)
            u.pa_level_at_1_meter = p1m
            chunks.append(m.chunk(u.buffer))
            exp["data"].append(("url", url, p1m))
        elif what == "raw":
            raw = blist(ctx.bytes("raw", 6))
            dt = 0xFF
            chunks.append(m.chunk(mk(ctx, raw), dt))
            exp["data"].append(("raw", [7, dt] + raw))
            raw2 = blist(ctx.bytes("raw2", 3))
            uuid = ctx.int("uuid", 0, 0xFFFF)
            ctx.assume(s_and(uuid != 0x1809, uuid != 0x180F, uuid != 0xFEAA))
            chunks.append(m.chunk(mk(ctx, [uuid & 0xFF, uuid >> 8] + raw2)))
            exp["data"].append(("raw", [6, 0x16, uuid & 0xFF, uuid >> 8] + raw2))
        elif what == "reference-encoder":
            lvl = ctx.int("battery", 0, 255)
            pdu = BS.adv_pdu(mac, [(1, [5]), (0x16, [0x0F, 0x18, lvl])])[:-3]
            pdu = pdu + blist(m.crc24_ble(mk(ctx, pdu)))  # the CRC bytes come from the real function (equal to the reference by C18-L1)
            air = BS.pdu_to_air(pdu + [0] * (32 - len(pdu)), ctx.conc(rr.reg[5]))
            rr.inject_rx(0, air)
            exp["data"].append(("battery", lvl))
        if what != "reference-encoder":
            tx.advertise(chunks)
        tx.__exit__()
        ctx.check(rx.available() == True, "the advertisement is received")  # noqa: E712
        e = rx.read()
        ctx.check(e is not None and rx.read() is None and rx.available() == False, "queued as exactly one element")  # noqa: E712
        if e is None:
            return
        ctx.check(bytes_eq(e.mac, mac), "sender's MAC")
        if exp["name"] is None:
            ctx.check(e.name is None, "no name")
        else:
            got = e.name
            cps = list(got.v) if hasattr(got, "v") else ([ord(c) for c in got] if isinstance(got, str) else list(got))
            ctx.check(len(cps) == len(exp["name"]) and bytes_eq(cps, exp["name"]), "name as advertised")
        ctx.check(e.pa_level == exp["pa"] if exp["pa"] is not None else e.pa_level is None, "PA level as advertised")
        # the mandatory flags structure (02 01 05) is not a service the library decodes: it is listed raw, first
        ctx.check(len(e.data) >= 1 and not isinstance(e.data[0], m.ServiceData) and bytes_eq(e.data[0], [2, 1, 5]),
                  "the flags structure is listed raw")
        decoded = e.data[1:]
        ctx.check(len(decoded) == len(exp["data"]), "one decoded entry per advertised data structure")
        for got, want in zip(decoded, exp["data"]):
            if want[0] == "battery":
                ctx.check(isinstance(got, m.BatteryServiceData) and got.data == want[1], "battery level as advertised")
            elif want[0] == "temperature":
                ctx.check(isinstance(got, m.TemperatureServiceData), "decoded as temperature service data")
                if isinstance(got, m.TemperatureServiceData):
                    v = got.data
                    if isinstance(v, SReal):
                        ctx.check(s_and(v.num == want[1], v.frac == SReal(0, 10 ** -2).frac if False else True),
                                  "temperature (negative values included) as advertised")
                        ctx.check(str(v.frac) == "1/100", "hundredths of a degree")
                    else:
                        ctx.check(round(v * 100) == want[1], "temperature (negative values included) as advertised")
            elif want[0] == "url":
                ctx.check(isinstance(got, m.UrlServiceData), "decoded as Eddystone URL")
                if isinstance(got, m.UrlServiceData):
                    ctx.check(got.data == want[1], "URL as advertised")
                    ctx.check(got.pa_level_at_1_meter == want[2], "Eddystone TX power as advertised")
            else:
                # undecoded structures are listed with their length byte, service data with an unknown UUID without it
                ctx.check(not isinstance(got, m.ServiceData) and (
                    (len(got) == len(want[1]) and bytes_eq(got, want[1])) or (len(got) == len(want[1]) - 1 and bytes_eq(got, want[1][1:]))),
                    "raw chunk verbatim")
    ctx.reached()


def valid_packet(ctx, L, body=None):
    """[0x42, L] + L symbolic bytes + CRC by the real function"""
    m = fb()
    body = blist(ctx.bytes("body", L)) if body is None else body
    head = [ctx.int("hdr", 0, 255), L] + body
    crc = m.crc24_ble(mk(ctx, head))
    return head + blist(crc)


def o2_valid_adversarial(ctx, L, freq_idx):
    m = fb()
    clock = fresh_env(ctx, urandom=lambda n: bytes(n))
    radio, rx = make_ble(ctx, clock)
    with rx:
        rx.channel = (2, 26, 80)[freq_idx]
        rx.listen = True
        pkt = valid_packet(ctx, L)
        pad = blist(ctx.bytes("pad", 32 - len(pkt)))
        radio.inject_rx(0, BS.pdu_to_air(pkt + pad, (2, 26, 80)[freq_idx]))
        ok = rx.available()  # must not raise for any data structures
        if L >= 6:
            ctx.check(ok == True, "a CRC-valid packet is queued")  # noqa: E712
            e = rx.read()
            ctx.check(e is not None and bytes_eq(e.mac, pkt[2:8]), "with the MAC of the packet")
        ctx.check(rx.read() is None or L < 6, "each element once")
    ctx.reached()


def o2_queue_element(ctx, L):
    """the parser behind available(): QueueElement(buffer) on a buffer whose length byte is L and whose every other
    byte is arbitrary - all data-structure layouts, truncated and malformed ones included - never raises"""
    m = fb()
    buf = blist(ctx.bytes("buf", L + 2))
    buf[1] = L
    from vsym.core import SByteArray
    e = m.QueueElement(SByteArray(buf) if ctx.symbolic else bytearray(buf))
    ctx.check(bytes_eq(e.mac, buf[2:8]), "MAC = bytes 2..7")
    total = 0
    for d in e.data:
        total += 1
    ctx.check(total <= 10, "a bounded number of entries")
    ctx.reached()


def o2_inconsistent(ctx, L, how):
    clock = fresh_env(ctx, urandom=lambda n: bytes(n))
    radio, rx = make_ble(ctx, clock)
    with rx:
        rx.listen = True
        pkt = valid_packet(ctx, L)
        if how == "crc":
            i = ctx.choice("crc_byte", 3)
            pkt[L + 2 + i] = pkt[L + 2 + i] ^ ctx.int("flip", 1, 255)
        else:
            big = ctx.int("length_byte", 28, 255)
            pkt[1] = big
        pad = blist(ctx.bytes("pad", 32 - len(pkt)))
        radio.inject_rx(0, BS.pdu_to_air(pkt + pad, 2))
        if how == "crc":
            ctx.check(rx.available() == False, "a packet whose CRC field is inconsistent is not queued")  # noqa: E712
        else:
            ctx.check(rx.available() == False, "a packet whose length byte points beyond the payload is not queued")  # noqa: E712
    ctx.reached()


def o2_arbitrary(ctx, L):
    clock = fresh_env(ctx, urandom=lambda n: bytes(n))
    radio, rx = make_ble(ctx, clock)
    with rx:
        rx.listen = True
        raw = blist(ctx.bytes("rx", 32))
        # the exploration is split over the (de-whitened) length byte; everything else is arbitrary
        pdu1 = BS.rev8(raw[1]) ^ BS.whiten_seq(37, 2)[1]
        ctx.assume(pdu1 == L)
        radio.inject_rx(0, raw)
        rx.available()  # never raises
        first = rx.read()
        ctx.check(rx.read() is None, "at most one element per received payload")
    ctx.reached()


def o2_order(ctx):
    clock = fresh_env(ctx, urandom=lambda n: bytes(n))
    radio, rx = make_ble(ctx, clock)
    with rx:
        rx.listen = True
        macs = []
        for i in range(3):
            mac = blist(ctx.bytes("mac%d" % i, 6))
            macs.append(mac)
            pdu = BS.adv_pdu(mac, [(1, [5])])[:-3]
            pdu = pdu + blist(fb().crc24_ble(mk(ctx, pdu)))
            radio.inject_rx(0, BS.pdu_to_air(pdu + [0] * (32 - len(pdu)), 2))
        for i in range(3):
            ctx.check(rx.available() == True, "packets are available while queued")  # noqa: E712
        for i in range(3):
            e = rx.read()
            ctx.check(e is not None and bytes_eq(e.mac, macs[i]), "read() returns queued elements in arrival order, each once")
        ctx.check(rx.read() is None, "nothing left")
    ctx.reached()


def o3_affine(ctx):
    m = fb()
    s, ds = ctx.int("s", 0, 0xFFFFFF), ctx.int("ds", 0, 0xFFFFFF)
    b, db = ctx.int("b", 0, 255), ctx.int("db", 0, 255)

    def f(state, byte):
        return blist(m.crc24_ble(mk(ctx, [byte]), 0x65B, state))
    a, c, d, z = f(s ^ ds, b ^ db), f(s, b), f(ds, db), f(0, 0)
    ctx.check(bytes_eq([w ^ x ^ y ^ v for w, x, y, v in zip(a, c, d, z)], [0, 0, 0]),
              "the CRC byte step is GF(2)-affine: f(x ^ e) = f(x) ^ f(e) ^ f(0)")
    ctx.reached()


def o3_bit_errors(ctx, L, double):
    """finite enumeration through the real receive path (by the affine lemma the outcome does not depend on the data)"""
    m = fb()
    clock = fresh_env(ctx, urandom=lambda n: bytes(n))
    radio, rx = make_ble(ctx, clock)
    radio.MAX_XFERS = 10 ** 8  # one long concrete enumeration on a single path: the per-path transaction budget does not apply
    body = [(7 * i + 3) & 0xFF for i in range(L)]
    head = [0x42, L] + body
    pkt = head + list(m.crc24_ble(bytes(head)))
    nbits = len(pkt) * 8
    positions = [p for p in range(nbits) if p // 8 != 1]  # the length byte is handled by O2 (consistency is re-evaluated)
    n = 0
    with rx:
        rx.listen = True
        for i, p in enumerate(positions):
            others = positions[i + 1:] if double else [None]
            for q in others:
                bad = list(pkt)
                bad[p // 8] ^= 1 << (p % 8)
                if q is not None:
                    bad[q // 8] ^= 1 << (q % 8)
                radio.rx_fifo.clear()
                radio.inject_rx(0, BS.pdu_to_air(bad + [0] * (32 - len(bad)), 2))
                n += 1
                if rx.available():
                    ctx.check(False, "a %s-bit corruption (bits %s, %s) of a valid packet is not queued" % ("double" if double else "single", p, q))
                    return
        radio.rx_fifo.clear()
        radio.inject_rx(0, BS.pdu_to_air(pkt + [0] * (32 - len(pkt)), 2))
        ctx.check(rx.available() == True, "the uncorrupted packet is queued (%d corruptions were all rejected)" % n)  # noqa: E712
    ctx.observe("corruptions", n)
    ctx.reached()


def jobs(tier):
    out = []
    for what in ("name+battery", "pa+temperature", "url", "raw", "reference-encoder"):
        for hops in ((0, 1) if tier == "quick" else (0, 1, 2)):
            out.append(Job("O1-round-trip", o1_roundtrip, dict(what=what, hops=hops), cost=10))
    out.append(Job("O1-round-trip-after-leaving-the-block", o1_roundtrip, dict(what="name+battery", hops=0, name_len=6, leave_block=True), cost=10))
    for nl in ((0, 1, 10) if tier == "quick" else (0, 1, 2, 3, 4, 6, 7, 8, 9, 10)):  # 10 + battery fills the advertisement
        out.append(Job("O1-round-trip", o1_roundtrip, dict(what="name+battery", hops=0, name_len=nl), cost=10))
    for L in ((6, 7, 8, 9) if tier == "quick" else (6, 7, 8, 9, 10, 11)):
        out.append(Job("O2-crc-valid-adversarial-structures", o2_valid_adversarial, dict(L=L, freq_idx=L % 3), cost=3 ** min(L - 5, 6)))
    for L in ((6, 7, 8, 9, 10, 11, 12, 13) if tier == "quick" else range(6, 16)):
        out.append(Job("O2-QueueElement-arbitrary-structures", o2_queue_element, dict(L=L), cost=3 ** min(L - 5, 8),
                       shards=(1 if L < 12 else 4 if L < 14 else 16)))
    for L in ((6, 13, 27) if tier == "quick" else range(6, 28, 3)):
        out.append(Job("O2-inconsistent-crc", o2_inconsistent, dict(L=L, how="crc"), cost=5))
        out.append(Job("O2-inconsistent-length", o2_inconsistent, dict(L=L, how="length"), cost=5))
    for L in ((0, 1, 5, 28, 29, 200, 255) if tier == "quick" else [0, 1, 2, 3, 4, 5, 28, 29, 30, 31, 64, 128, 200, 255]):
        out.append(Job("O2-arbitrary-32-bytes", o2_arbitrary, dict(L=L), cost=30, shards=2))
    out.append(Job("O2-read-order", o2_order, {}, cost=3))
    out.append(Job("O3-crc-step-affine-lemma", o3_affine, {}, cost=5, crosscheck=True))
    for L in ((6, 9, 27) if tier == "quick" else range(6, 28)):
        out.append(Job("O3-single-bit-errors", o3_bit_errors, dict(L=L, double=False), cost=5))
    for L in ((6, 11) if tier == "quick" else (6, 9, 11, 16, 21, 27)):
        out.append(Job("O3-double-bit-errors", o3_bit_errors, dict(L=L, double=True), cost=300 + L * 40))
    return out


META = {
    "bounds": {"quick": "O1: five advertisement kinds (5-byte ASCII name + battery 0..255; every PA level + temperature as the wire "
                        "integer -30000..30000 hundredths; URL = 4 schemes x 4 symbolic letters a-z x 14 suffixes + symbolic TX power; "
                        "two raw chunks with symbolic contents / UUID; the independent reference encoder), 0-1 hops, symbolic MAC; O2: "
                        "CRC-valid-by-construction packets through available() with length byte 6..9 and every other byte symbolic, 3 "
                        "channels; the parser QueueElement(buffer) directly on arbitrary buffers with length byte 6..13 (all AD "
                        "structure layouts); inconsistent CRC (symbolic flip) / length byte 28..255; 32 arbitrary bytes "
                        "with de-whitened length byte 0,1,5,28,29,200,255 (for 6..27 the claim is the composition available() = pipeline o "
                        "QueueElement of the two obligations above); arrival order for 3 packets; O3: affine lemma "
                        "over all states/bytes; every single-bit error for lengths 6, 9, 27 and every double-bit error for lengths 6, "
                        "11 (enumeration)",
               "thorough": "QueueElement for length 6..15 (the layouts grow by x3.3 per byte: longer buffers are outside; the parse loop handles one structure per iteration, so longer buffers repeat the explored iterations - an argument, not a solver result), O3-single for every length, double-bit errors for six lengths, arbitrary bytes for every length byte "
                           "0..30"},
    "outside": ["TemperatureServiceData float -> hundredths conversion on the SENDING side (floating point: int(value * 100)); the wire "
                "integer is symbolic instead", "non-ASCII names (decoded to bytes by the library)", "URLs with letters outside a-z or "
                "other lengths", "bit errors that hit the length byte: the packet is then judged by O2's consistency rule, not by a "
                "syndrome argument", "the double-bit enumeration beyond the listed lengths"],
    "assumptions": ["O3's enumeration runs on one data pattern per length; independence of the data follows from the affine lemma plus "
                    "C18's chain law", "medium: equal RF_CH / address / static width = received"],
}

if __name__ == "__main__":
    import sys
    BS.selftest()
    sys.exit(main(sys.modules[__name__]))
