"""checks.common - shared harness helpers (mode agnostic: proxies or plain values)."""
from vsym import ctx as C
from vsym.core import (SInt, SBool, SBytesBase, blist, bytes_eq, s_and, s_or, s_not, s_ite,
                       s_implies, s_truth)
from vsym.runner import Job, main
from env.simradio import SimRadio, FakeSpiDev, FakeBus, Pin
from env.vclock import VClock
from env.medium import Medium, ScriptedLink, symbolic_schedule


def mods():
    return C.repo_modules()


def fresh_env(ctx, tick_ns=1_000_000, urandom=None, fs=None):
    """a new virtual clock (and stubs) for this path; returns the clock"""
    clock = VClock(tick_ns)
    C.install_env(clock=clock, urandom=urandom, fs=fs)
    return clock


def new_rf24(clock, name="radio", cls=None, radio=None, **kw):
    from circuitpython_nrf24l01.rf24 import RF24
    radio = radio or SimRadio(clock, name)
    nrf = (cls or RF24)(FakeSpiDev(radio), 0, Pin(radio), **kw)
    return radio, nrf


def new_lite(clock, name="lite", radio=None):
    from circuitpython_nrf24l01.rf24_lite import RF24 as Lite
    radio = radio or SimRadio(clock, name)
    nrf = Lite(FakeBus(radio), Pin(None), Pin(radio))
    return radio, nrf


def sym_registers(ctx, radio, prefix="pre"):
    """arbitrary register contents (a radio left configured by somebody else)"""
    from env.simradio import WMASK
    for r, m in WMASK.items():
        v = ctx.int("%s_r%02x" % (prefix, r), 0, 255)
        radio.reg[r] = v & m
    for r in (0x0A, 0x0B, 0x10):
        radio.addr[r] = [ctx.int("%s_a%02x_%d" % (prefix, r, i), 0, 255) for i in range(5)]


def pad_trunc(data, n):
    return (list(data) + [0] * 32)[:n]


def touch_rf24_getters(nrf, down=False):
    """read every read-only attribute / getter of an RF24 (or lite RF24) object: reading is not a configuration change, so
    nothing about the object's later behaviour may depend on whether - or in which order - they were read"""
    for name in ("channel", "data_rate", "pa_level", "is_lna_enabled", "crc", "address_length", "ard", "arc", "auto_ack",
                 "dynamic_payloads", "payload_length", "ack", "allow_ask_no_ack", "power", "listen", "pipe", "irq_dr", "irq_ds",
                 "irq_df", "tx_full", "is_plus_variant", "last_tx_arc", "rpd"):
        try:
            getattr(nrf, name)
        except AttributeError:
            pass  # (not offered by the lite driver)
    pipes = range(5, -1, -1) if down else range(6)  # (the per-pipe getters are read in ascending or descending order)
    for meth, args in (("get_auto_retries", [()]), ("get_auto_ack", [(p,) for p in pipes]),
                       ("get_dynamic_payloads", [(p,) for p in pipes]), ("get_payload_length", [(p,) for p in pipes]),
                       ("address", [(p,) for p in pipes] + [()]), ("fifo", [(True,), (False,), (True, True)]),
                       ("available", [()]), ("any", [()])):
        f = getattr(nrf, meth, None)
        if f is None:
            continue
        for a in args:
            f(*a)
