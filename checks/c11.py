"""C11 - header and fragment wire formats are stable and TMRh20-compatible.

O1  header: all five fields symbolic far beyond their wire ranges (masking, reserved addresses
    and id wrap are instances), the type also as a symbolic one-character str: pack() is
    exactly LE16 from, LE16 to, LE16 id, type, reserved of the masked values; unpack(pack())
    restores them; buffers of 0..7 bytes are refused; frame = header + unmodified message.
O2  fragments on the air: the real write() with every message length, symbolic contents /
    type / id: the frames on the air are exactly the reference fragmenter's frames, the
    TMRh20-style reference reassembler returns the original message and type, and the caller's
    header shows its original type afterwards - also after a send aborted at any fragment.
O3  consecutive headers get consecutive frame ids modulo 2**16.
"""
from checks.common import *  # noqa
from checks.c04 import new_net
from specs import frag_spec as FS
from specs import net_spec as NS

PROPERTY = "C11"
R = (-(1 << 16), 1 << 17)


def o1_header(ctx, msg_len, str_type):
    from circuitpython_nrf24l01.network.structs import RF24NetworkHeader, RF24NetworkFrame
    to0 = ctx.int("ctor_to", *R)
    if str_type:
        t0 = ctx.str("ctor_type", 1, 0, 255)
        tval = t0.v[0] if ctx.symbolic else ord(t0)
    else:
        t0 = ctx.int("ctor_type", *R)
        tval = t0 & 0xFF
    h = RF24NetworkHeader(to0, t0)
    ctx.check(s_and(h.to_node == (to0 & 0xFFF), h.message_type == tval, h.reserved == 0, h.from_node == 0o7777),
              "constructor masks the destination to 12 bits and the type to one byte")
    frm, to, fid, res = (ctx.int(n, *R) for n in ("from", "to", "id", "reserved"))
    h.from_node, h.to_node, h.frame_id, h.reserved = frm, to, fid, res
    mt = tval
    if not str_type:
        mt = ctx.int("type", *R)
        h.message_type = mt
    raw = h.pack()
    ctx.check(len(raw) == 8 and len(h) == 8, "a header always serialises to exactly 8 bytes")
    want = [frm & 0xFF, (frm >> 8) & 0x0F, to & 0xFF, (to >> 8) & 0x0F, fid & 0xFF, (fid >> 8) & 0xFF, mt & 0xFF, res & 0xFF]
    ctx.check(bytes_eq(raw, want), "LE16 origin, LE16 destination, LE16 id, type, reserved of the masked values")
    ctx.observe("raw", raw)
    h2 = RF24NetworkHeader()
    ctx.check(h2.unpack(raw) == True, "8 bytes are accepted")  # noqa: E712
    ctx.check(s_and(h2.from_node == (frm & 0xFFF), h2.to_node == (to & 0xFFF), h2.frame_id == (fid & 0xFFFF),
                    h2.message_type == (mt & 0xFF), h2.reserved == (res & 0xFF)), "parsing the bytes yields the same field values")
    for n in range(8):
        h3 = RF24NetworkHeader(1, 2)
        ctx.check(h3.unpack(raw[:n]) == False, "buffers shorter than 8 bytes are refused")  # noqa: E712
        ctx.check(s_and(h3.to_node == 1, h3.message_type == 2), "a refused buffer changes nothing")
        ctx.check(RF24NetworkFrame().unpack(raw[:n]) == False, "frame refuses short buffers")  # noqa: E712
    msg = ctx.bytes("msg", msg_len)
    f = RF24NetworkFrame(h, msg)
    fr = f.pack()
    ctx.check(len(fr) == 8 + msg_len and len(f) == 8 + msg_len, "frame length = 8 + message")
    ctx.check(bytes_eq(fr, want + blist(msg)), "frame = header followed by the unmodified message")
    f2 = RF24NetworkFrame()
    ctx.check(f2.unpack(fr) == True, "frame parses")  # noqa: E712
    ctx.check(bytes_eq(f2.message, msg), "parsed frame carries the unmodified message")
    ctx.check(f2.header.frame_id == (fid & 0xFFFF), "parsed frame carries the header")
    ctx.reached()


def o2_fragments(ctx, n, lossy, toggle=False, routed=False, getters=False, direct=False):
    from circuitpython_nrf24l01.network.structs import RF24NetworkHeader
    clock = fresh_env(ctx)
    radio, net = new_net(clock, 0o1)
    if toggle:  # fragmentation switched off and on again before sending: it is on, so nothing may be cut
        net.fragmentation = False
        net.fragmentation = True
        ctx.check(net.fragmentation == True, "fragmentation reads back as enabled")  # noqa: E712
    if getters:  # the application looked at every read-only attribute first
        from checks.netcommon import touch_getters
        touch_getters(net)
    total = max(1, (n + 23) // 24)
    fail_at = ctx.int("fail_at", 0, total - 1) if lossy is True else None
    uids = []

    def acks(k, pkt):
        if pkt.uid not in uids:
            uids.append(pkt.uid)
        if fail_at is None:
            return True
        return s_not(fail_at == uids.index(pkt.uid))
    radio.link = ScriptedLink(acks, by_packet=True)
    if lossy == "outage":
        # one fragment (symbolic index) meets an outage of 2, 20, 30, ... 100, 200 ms or for ever, the link then recovers: whatever send()
        # answers, every frame on the air is the reference frame of its index (no re-slicing, no skipped or re-typed fragment)
        from checks.netcommon import outage_link
        slow_at = ctx.int("slow_at", 0, total - 1)
        outage_link(ctx, radio, clock, (2, 20, 30, 40, 50, 60, 70, 80, 90, 100, 200, None), only=lambda i: bool(slow_at == i))
    dst = 0o2 if (routed or direct) else 0  # routed: via the master, awaiting a NETWORK_ACK that never comes (ack type 65..127)
    mtype = ctx.int("type", 65, 127) if routed else ctx.int("type", 0, 127)
    msg = ctx.bytes("msg", n)
    h = RF24NetworkHeader(dst, mtype)
    fid = ctx.int("frame_id", 0, 0xFFFF)
    h.frame_id = fid
    sent0 = len(radio.sent)
    if direct:
        # write(frame, traffic_direct): the application names the neighbour (the master) that is to route the frame for 0o2; the
        # frame itself - header and message - is the application's and goes out unchanged, any type, without a NETWORK_ACK wait
        from circuitpython_nrf24l01.network.structs import RF24NetworkFrame
        ok = net.write(RF24NetworkFrame(h, msg), 0)
        ctx.check(not net.available(), "nothing lands in the sender's own queue")
    else:
        ok = net.send(h, msg)
    ctx.check(h.message_type == mtype, "after sending, the caller's header shows its original type again")
    ctx.check(s_and(h.from_node == 0o1, h.to_node == dst, h.frame_id == fid), "caller's header keeps origin/destination/id")
    exch = radio.sent[sent0:]
    if direct:
        for e in exch:
            ctx.check(bytes_eq(e["addr"], NS.phys(0, 0, True)), "every frame goes to pipe 0 of the neighbour named as traffic_direct (documented: 'multicast to the first node, routed normally to the next')")
    frames, seen = [], []
    for e in exch:
        if e["uid"] not in seen:
            seen.append(e["uid"])
            frames.append(e["data"])
    if n > 24:
        ref = FS.fragments(0o1, dst, fid, mtype, blist(msg))
    else:
        one = dict(from_node=0o1, to_node=dst, frame_id=fid, message_type=mtype, reserved=0, len=n)
        one.update({("b", j): b for j, b in enumerate(blist(msg))})
        ref = [one]
    if routed:
        ctx.check(ok == False, "False: every frame was accepted by the first hop but no NETWORK_ACK arrived")  # noqa: E712
        ctx.check(len(frames) == total, "ceil(n/24) frames")
    elif lossy == "outage":
        ctx.check(len(frames) <= total, "no more than ceil(n/24) distinct frames")
        if bool(ok == True):  # noqa: E712
            ctx.check(len(frames) == total, "send() answers True only after all ceil(n/24) frames went out")
        ref = ref[:len(frames)]
    elif lossy:
        fa = ctx.conc(fail_at)
        ctx.check(ok == False, "send() reports the aborted transmission")  # noqa: E712
        ctx.check(len(frames) == fa + 1, "transmission stops at the fragment that was never acknowledged")
        ref = ref[:fa + 1]
    else:
        ctx.check(ok == True, "send() succeeds when every frame is acknowledged")  # noqa: E712
        ctx.check(len(frames) == total, "ceil(n/24) frames")
    for fr, rf in zip(frames, ref):
        ctx.check(len(fr) <= 32, "frames of at most 32 on-air bytes")
        w = [rf["from_node"] & 0xFF, rf["from_node"] >> 8, rf["to_node"] & 0xFF, rf["to_node"] >> 8, fid & 0xFF, fid >> 8,
             rf["message_type"], rf["reserved"]] + [rf[("b", j)] for j in range(rf["len"])]
        ctx.check(len(fr) == len(w) and bytes_eq(fr, w), "on-air frame = reference fragmenter's frame (shared id, "
                  "first/more/last, descending counter, original type in the last reserved byte)")
    if (not lossy and not routed) or (lossy == "outage" and bool(ok == True)):  # noqa: E712
        ra = FS.Reassembler()
        for fr in frames:
            ra.feed(fr[0] | (fr[1] << 8), fr[4] | (fr[5] << 8), fr[6], fr[7], fr[8:])
        if n > 24:
            ctx.check(len(ra.out) == 1, "a TMRh20-style receiver reassembles exactly one message")
            if ra.out:
                m = ra.out[0]
                ctx.check(s_and(m["type"] == mtype, m["origin"] == 0o1, len(m["data"]) == n and bytes_eq(m["data"], msg)),
                          "the reassembled message is the original message with its type")
    ctx.observe("frames", frames)
    ctx.reached()


def o4_frame_objects(ctx, n):
    """the application's frame object stays the application's: write(frame_a); send(header_b, message_b); write(frame_a) again -
    frame_a still holds A (all header fields and the message) and goes out as A both times"""
    from circuitpython_nrf24l01.network.structs import RF24NetworkHeader, RF24NetworkFrame
    clock = fresh_env(ctx)
    radio, net = new_net(clock, 0o1)
    radio.link = ScriptedLink(lambda k: True)
    ta, tb = ctx.int("type_a", 0, 64), ctx.int("type_b", 0, 64)
    msg_a, msg_b = ctx.bytes("msg_a", n), ctx.bytes("msg_b", 3)
    fa = RF24NetworkFrame(RF24NetworkHeader(0, ta), msg_a)
    ida = fa.header.frame_id

    def is_a(what):
        ctx.check(s_and(fa.header.to_node == 0, fa.header.message_type == ta, fa.header.frame_id == ida, fa.header.reserved == 0),
                  what + ": the frame object's header is unchanged")
        ctx.check(len(fa.message) == n and bool(bytes_eq(fa.message, msg_a)), what + ": the frame object's message is unchanged")
    ctx.check(net.write(fa) == True, "write(frame_a) succeeds")  # noqa: E712
    is_a("after write(frame_a)")
    ctx.check(net.send(RF24NetworkHeader(0, tb), msg_b) == True, "send(header_b, message_b) succeeds")  # noqa: E712
    is_a("after send(header_b, message_b)")
    sent0 = len(radio.sent)
    ctx.check(net.write(fa) == True, "write(frame_a) succeeds again")  # noqa: E712
    is_a("after the second write(frame_a)")
    pk = radio.sent[sent0:]
    ctx.check(len(pk) == 1, "one frame on the air")
    if len(pk) == 1:
        w = [1, 0, 0, 0, ida & 0xFF, ida >> 8, ta, 0] + blist(msg_a)
        ctx.check(len(pk[0]["data"]) == len(w) and bool(bytes_eq(pk[0]["data"], w)), "the second write(frame_a) puts frame A on the air")
    ctx.reached()


def o3_ids(ctx):
    from circuitpython_nrf24l01.network.structs import RF24NetworkHeader
    start = ctx.int("next_id", 0, 0xFFFF)
    RF24NetworkHeader._RF24NetworkHeader__next_id = start  # the only private access of this property
    a, b, c = RF24NetworkHeader(1, 0), RF24NetworkHeader(2, 1), RF24NetworkHeader()
    ctx.check(a.frame_id == start, "first header takes the counter")
    ctx.check(s_and(b.frame_id == ((start + 1) & 0xFFFF), c.frame_id == ((start + 2) & 0xFFFF)),
              "consecutive headers get consecutive ids modulo 2**16")
    RF24NetworkHeader._RF24NetworkHeader__next_id = 0
    ctx.reached()


def jobs(tier):
    out = []
    for ml in ((0, 1, 24) if tier == "quick" else range(0, 25)):
        for st in (False, True):
            out.append(Job("O1-header-format", o1_header, dict(msg_len=ml, str_type=st)))
    lens = (0, 1, 24, 25, 47, 48, 49, 72, 96, 120, 121, 143, 144) if tier == "quick" else range(0, 145)
    for n in lens:
        out.append(Job("O2-fragments-on-air", o2_fragments, dict(n=n, lossy=False), cost=1 + n // 24))
    for n in ((25, 49, 144) if tier == "quick" else (25, 48, 49, 72, 73, 96, 97, 120, 121, 144)):
        out.append(Job("O2-aborted-send-restores-type", o2_fragments, dict(n=n, lossy=True), cost=20 + n // 4))
    for n in ((25, 144) if tier == "quick" else (24, 25, 49, 144)):
        out.append(Job("O2-fragments-on-air-after-toggling-fragmentation", o2_fragments, dict(n=n, lossy=False, toggle=True), cost=2 + n // 24))
    for n in ((49, 72) if tier == "quick" else (25, 48, 49, 72, 97, 144)):
        out.append(Job("O2-fragments-through-an-outage", o2_fragments, dict(n=n, lossy="outage"), cost=30 + n // 4))
    for n in ((49,) if tier == "quick" else (25, 49, 144)):
        out.append(Job("O2-fragments-routed-without-NETWORK_ACK", o2_fragments, dict(n=n, lossy=False, routed=True), cost=10))
    for n in ((1, 25, 50) if tier == "quick" else (0, 1, 24, 25, 49, 50, 143, 144)):
        out.append(Job("O2-fragments-on-air-after-reading-every-getter", o2_fragments, dict(n=n, lossy=False, getters=True), cost=3))
        out.append(Job("O2-write-with-an-explicit-traffic_direct", o2_fragments, dict(n=n, lossy=False, direct=True), cost=3))
    for n in ((5,) if tier == "quick" else (0, 5, 24)):
        out.append(Job("O4-the-application-keeps-its-frame-object", o4_frame_objects, dict(n=n), cost=4))
    out.append(Job("O3-id-counter", o3_ids, {}))
    return out


META = {
    "bounds": {"quick": "O1: all five header fields symbolic in [-65536, 131072], type also as a symbolic 1-char str (code point "
                        "0..255), message length 0/1/24; O2: message lengths 0,1,24,25,47,48,49,72,96,120,121,143,144 with "
                        "symbolic contents, type 0..127, frame id 0..65535; aborted sends (symbolic failing fragment) for 25, "
                        "49, 144 bytes; O3: symbolic counter start 0..65535",
               "thorough": "message length 0..24 in O1, every length 0..144 in O2, ten lengths for aborted sends"},
    "outside": ["big-endian hosts (the native-order 'HHHBB' is claimed for little-endian hosts only)", "messages > 144 bytes",
                "multi-character str types (only the first character is used)"],
    "assumptions": ["reference fragmenter / TMRh20-style strict reassembler: specs/frag_spec.py",
                    "sender 0o1 -> its parent 0o0 (direct neighbour, so no NETWORK_ACK wait interferes)"],
}

if __name__ == "__main__":
    import sys
    FS.selftest()
    sys.exit(main(sys.modules[__name__]))
