"""C15 - no received frame can crash a node or make it forward garbage.

O1  update() on every node role (routing-only, network, mesh, mesh master) at a symbolic
    address of every level, with ONE ARBITRARY payload in the RX FIFO: length enumerated
    0..32, every byte symbolic (all header values, all 256 types, truncated / oversized mesh
    payloads), symbolic receiving pipe, a symbolic outcome for every packet the node transmits,
    and (master) a symbolic lease table.  update() must return normally within bounded
    (virtual) time; frames shorter than a header or with an invalid origin / destination must be
    dropped without being queued or retransmitted.
O2  is_address_valid(a) <=> reference predicate, for symbolic a in [-65536, 131072] and None.
"""
from checks.netcommon import *  # noqa
from vsym.symcoll import SymDict

PROPERTY = "C15"


def sym_table(ctx, n):
    """an arbitrary valid lease table of n entries (distinct ids, distinct valid non-zero addresses)"""
    ids, addrs = [], []
    for i in range(n):
        k = ctx.int("tab_id%d" % i, 1, 255)
        a = ctx.int("tab_addr%d" % i, 1, 0o7777)
        ctx.assume(s_and(NS.valid(a), a != 0o4444))
        for j in range(i):
            ctx.assume(s_and(k != ids[j], a != addrs[j]))
        ids.append(k)
        addrs.append(a)
    return list(zip(ids, addrs))


def o1_update(ctx, role, lvl, n, frames=1, tr=None, first=None, relay=False, full=False, two_calls=False):
    clock = fresh_env(ctx)
    radio, node, addr = build_node(ctx, clock, role, lvl)
    link, outcome = per_packet_link(ctx, radio)
    if relay:
        node.multicast_relay = True
    if role == "master" and full:
        # every child slot of the master and of the relay 0o1 is leased (to IDs 10..18): an address request cannot be served
        tab = [[10 + i, a] for i, a in enumerate((0o1, 0o2, 0o3, 0o4, 0o5, 0o11, 0o21, 0o31, 0o41)[:5 if two_calls else 9])]
        node.dhcp_dict = SymDict(tab) if ctx.symbolic else dict(tab)
    elif role == "master":
        tab = sym_table(ctx, 2)
        node.dhcp_dict = SymDict(tab) if ctx.symbolic else dict(tab)
    payloads = []
    for f in range(frames):
        payload = ctx.bytes("rx%d" % f if frames > 1 else "rx", n)
        if f == 0 and frames > 1 and first is not None:
            # the first frame of a sequence is restricted to the frames after which update() keeps reading: addressed to the
            # multicast address (first="multicast") or to multicast / the node itself (first="consumed"); its other fields stay symbolic
            to = payload[2] | (payload[3] << 8)
            if isinstance(first, list) and first[0] == "to-child":
                # a frame of ANY type from the master for a direct child of this node: the node is its last hop (for types
                # 65..191 it also owes the origin a NETWORK_ACK) - and update() reads on afterwards
                child = addr | (ctx.int("child_digit", 1, 5) << (3 * lvl))
                ctx.assume(s_and(to == child, (payload[0] | (payload[1] << 8)) == 0))
            elif isinstance(first, int):  # quick tier: a multicast-addressed frame of the given type from an unassigned node
                ctx.assume(s_and(to == 0o100, (payload[0] | (payload[1] << 8)) == 0o4444, payload[6] == first))
            elif isinstance(first, list):  # [type, origin]: a frame of that type addressed to this node from that origin
                ctx.assume(s_and(to == addr, (payload[0] | (payload[1] << 8)) == first[1], payload[6] == first[0]))
            else:
                ctx.assume(s_or(to == 0o100, to == addr))
        radio.inject_rx(ctx.int("pipe%d" % f if frames > 1 else "pipe", 0, 5), blist(payload))
        payloads.append(payload)
        if two_calls and f == 0:
            node.update()  # the first frame is handled by an update() call of its own; the second arrives afterwards
            queue_frames(node)
            payloads = []
        if f == 1 and isinstance(first, list) and len(first) > 2:
            # quick tier: the second frame is one the node discards (invalid origin or destination) - everything else arbitrary
            h2 = header_of(payload)
            ctx.assume(s_or(s_not(NS.valid_or_multicast(h2["to_node"])), s_not(NS.valid_or_multicast(h2["from_node"]))))
        if tr is not None and n >= 8 and not (two_calls and f == 0):  # the exploration is split over message-type ranges
            ctx.assume(s_and(payload[6] >= tr[0], payload[6] <= tr[1]))
    t0, sent0 = clock.now, len(radio.sent)
    ret = node.update()  # any exception escaping here is a violation candidate
    ctx.check(clock.now - t0 <= 2_000_000_000, "update() finishes in bounded (virtual) time")
    queued = queue_frames(node)
    sent = distinct_packets(radio, sent0)
    droppable = True
    for payload in payloads:
        if n < 8:
            continue
        h = header_of(payload)
        bad = s_or(s_not(NS.valid_or_multicast(h["to_node"])), s_not(NS.valid_or_multicast(h["from_node"])))
        if not bool(bad):
            droppable = False
    if droppable:
        ctx.check(len(queued) == 0, "frames shorter than a header / with an invalid address are not queued")
        ctx.check(len(sent) == 0, "frames shorter than a header / with an invalid address are not retransmitted")
    for e in sent:
        ctx.check(len(e["data"]) >= 8 and len(e["data"]) <= 32, "whatever the node transmits is a frame of 8..32 bytes")
    if frames > 1 and not droppable:
        # per frame: an invalid frame of a sequence is neither retransmitted nor queued, whatever came before it in the same pass
        for payload in payloads:
            if n < 8:
                continue
            h = header_of(payload)
            if not bool(s_or(s_not(NS.valid_or_multicast(h["to_node"])), s_not(NS.valid_or_multicast(h["from_node"])))):
                continue
            for e in sent:
                ctx.check(s_not(bytes_eq(e["data"][:8], blist(payload)[:8])) if len(e["data"]) >= 8 else True,
                          "a frame with an invalid address is not retransmitted (also when it follows a handled frame)")
            for q in queued:
                ctx.check(s_not(s_and(q.header.from_node == h["from_node"], q.header.to_node == h["to_node"], q.header.frame_id == h["frame_id"])),
                          "a frame with an invalid address is not queued (also when it follows a handled frame)")
    ctx.observe("ret", ret)
    ctx.observe("n_sent", len(sent))
    ctx.reached()


def o1_after_reassembly(ctx, role, lvl, same_call):
    """three frames: a complete two-fragment message for this node (FIRST, LAST - reassembled and queued), then ONE ARBITRARY
    frame (typically a stray or repeated fragment): update() returns normally, and the arbitrary frame is dropped if invalid"""
    clock = fresh_env(ctx)
    radio, node, addr = build_node(ctx, clock, role, lvl)
    link, outcome = per_packet_link(ctx, radio)
    if role == "master":
        tab = sym_table(ctx, 2)
        node.dhcp_dict = SymDict(tab) if ctx.symbolic else dict(tab)
    f = sym_addr(ctx, "F", (lvl + 1) % 5)
    ctx.assume(f != addr)
    fid, t = ctx.int("id", 0, 0xFFFF), ctx.int("type", 0, 127)
    for k, (ft, res) in enumerate(((148, 2), (150, t))):
        radio.inject_rx(ctx.int("pipe%d" % k, 1, 5), [f & 0xFF, f >> 8, addr & 0xFF, addr >> 8, fid & 0xFF, fid >> 8, ft, res] + blist(ctx.bytes("frag%d" % k, 2)))
    if not same_call:
        node.update()
    third = ctx.bytes("rx2", 9)
    radio.inject_rx(ctx.int("pipe2", 0, 5), blist(third))
    t0, sent0 = clock.now, len(radio.sent)
    node.update()  # any exception escaping here is a violation candidate
    ctx.check(clock.now - t0 <= 2_000_000_000, "update() finishes in bounded (virtual) time")
    queued = queue_frames(node)
    h = header_of(third)
    if bool(s_or(s_not(NS.valid_or_multicast(h["to_node"])), s_not(NS.valid_or_multicast(h["from_node"])))):
        ctx.check(len(queued) <= 1, "only the reassembled message is queued: the invalid frame is not")
        for e in distinct_packets(radio, sent0):
            ctx.check(s_not(bytes_eq(e["data"][:8], blist(third)[:8])) if len(e["data"]) >= 8 else True, "the invalid frame is not retransmitted")
    ctx.reached()


def o1_then_short(ctx, role, lvl, n2, same_call):
    """a well-formed frame is handled first (queued, forwarded or consumed), then a payload shorter than a header arrives - in the
    same update() pass or in a later one: it is dropped, i.e. nothing (in particular not the earlier frame again) is queued or
    transmitted because of it"""
    clock = fresh_env(ctx)
    radio, node, addr = build_node(ctx, clock, role, lvl)
    link, outcome = per_packet_link(ctx, radio, always=True)
    first = ctx.bytes("rx0", 10)
    h = header_of(first)
    ctx.assume(s_and(NS.valid(h["from_node"]), h["from_node"] != addr, h["message_type"] <= 127,
                     s_or(NS.valid(h["to_node"]), h["to_node"] == 0o100)))
    short = ctx.bytes("rx1", n2)
    radio.inject_rx(ctx.int("pipe0", 0, 5), blist(first))
    if same_call:
        radio.inject_rx(ctx.int("pipe1", 0, 5), blist(short))
        node.update()
        queued, sent = queue_frames(node), distinct_packets(radio, 0)
        ctx.check(len(queued) <= 1, "the short payload queues nothing (at most the well-formed frame is queued, once)")
        ctx.check(len([e for e in sent if e["data"][6] != 193]) <= 1, "the short payload is not retransmitted (at most the well-formed frame is forwarded, once)")
    else:
        node.update()
        queue_frames(node)
        sent0 = len(radio.sent)
        radio.inject_rx(ctx.int("pipe1", 0, 5), blist(short))
        ret = node.update()
        ctx.check(len(queue_frames(node)) == 0, "frames shorter than a header are not queued")
        ctx.check(len(distinct_packets(radio, sent0)) == 0, "frames shorter than a header are not retransmitted")
        ctx.check(ret == 0, "update() reports no message type for a dropped payload")
    ctx.reached()


def o2_valid(ctx, kind):
    from circuitpython_nrf24l01.network.structs import is_address_valid
    if kind == "none":
        ctx.check(is_address_valid(None) == False, "None is not a valid address")  # noqa: E712
        ctx.reached()
        return
    a = ctx.int("address", -(1 << 16), 1 << 17)
    if kind == "neg":
        ctx.assume(a < 0)
    elif kind == "low":
        ctx.assume(s_and(a >= 0, a < 0o10000))
    else:
        ctx.assume(a >= 0o10000)
    got = is_address_valid(a)
    ctx.check(got == NS.valid_or_multicast(a),
              "valid iff 0, a reserved multicast address, or one to four octal digits each in 1..5")
    ctx.reached()


def jobs(tier):
    out = []
    if tier == "quick":
        plan = {"routing": {0: (0, 7, 8, 10), 1: (8,), 3: (10,)}, "net": {0: (32,), 2: (1, 8), 4: (9,)},
                "mesh": {1: (8,), 2: (32,), 4: (7,)}, "master": {0: (0, 7, 8, 9, 10, 32)}}
    else:
        lens = list(range(0, 14)) + [16, 20, 24, 28, 31, 32]
        plan = {r: {l: lens for l in ((0,) if r == "master" else range(0 if r != "mesh" else 1, 5))} for r in ROLES}
    for role in ROLES:
        for lvl, lens in plan[role].items():
            for n in lens:
                out.append(Job("O1-update-arbitrary-frame", o1_update, dict(role=role, lvl=lvl, n=n),
                               cost=(0.1 if n < 8 else 10 + lvl * 5), shards=(1 if n < 8 else 6)))
    for role, lvl in ((("mesh", 1), ("net", 4)) if tier == "quick" else (("mesh", 1), ("net", 4), ("routing", 0), ("master", 0), ("mesh", 3))):
        out.append(Job("O1-update-arbitrary-frame-relay-on", o1_update, dict(role=role, lvl=lvl, n=8, relay=True), cost=30, shards=6))
    for n in ((8, 9) if tier == "quick" else (8, 9, 10, 12)):
        out.append(Job("O1-update-arbitrary-frame-full-lease-table", o1_update, dict(role="master", lvl=0, n=n, full=True, tr=[190, 200]),
                       cost=40, shards=6))
    # an address request that cannot be served (full table), then an arbitrary second frame in the same pass
    out.append(Job("O1-update-two-frames-full-lease-table", o1_update, dict(role="master", lvl=0, n=8, frames=2, first=195, full=True, two_calls=True, tr=[120, 131]),
                   cost=300, shards=12))
    # sequences of two frames read in one update() pass (state carried from the first to the second)
    for t in (195, 194, 1):
        out.append(Job("O1-update-two-frames", o1_update, dict(role="master", lvl=0, n=8, frames=2, first=t), cost=400, shards=6))
    # ... and an address request relayed from a level-2 node (the reply awaits a NETWORK_ACK: the second frame is read meanwhile)
    out.append(Job("O1-update-two-frames", o1_update, dict(role="master", lvl=0, n=8, frames=2,
                                                           first=[195, 0o12] + (["discarded-second"] if tier == "quick" else [])),
                   cost=400, shards=(8 if tier == "quick" else 16)))
    # ... and a frame this node delivers to one of its children as the last hop, then a frame it must discard
    for role, lvl in ((("net", 1),) if tier == "quick" else (("net", 1), ("routing", 2), ("mesh", 3), ("net", 3))):
        out.append(Job("O1-update-two-frames-last-hop-then-invalid", o1_update,
                       dict(role=role, lvl=lvl, n=8, frames=2, first=["to-child", None, "discarded-second"]), cost=300, shards=8))
    if tier == "thorough":
        # every role; first frame of every type the network layer treats specially (and a user type), addressed to the multicast
        # address from an unassigned node, or to this node from 0o12
        for role in ROLES:
            for t in (1, 130, 148, 149, 150, 193, 194, 195, 196, 197, 198, 199):
                for first in (t, [t, 0o12]):
                    if role == "master" and first in (195, 194, 1):
                        continue  # above
                    out.append(Job("O1-update-two-frames", o1_update,
                                   dict(role=role, lvl=0 if role == "master" else 2, n=8, frames=2, first=first), cost=400, shards=8))
    for role, lvl in ((("net", 2),) if tier == "quick" else (("net", 2), ("mesh", 1), ("master", 0), ("net", 0), ("mesh", 4))):
        for same in (False, True):
            out.append(Job("O1-update-arbitrary-frame-after-a-reassembled-message", o1_after_reassembly, dict(role=role, lvl=lvl, same_call=same),
                           cost=200, shards=8))
    for role, lvl, n2 in ((("net", 2, 7), ("routing", 1, 1), ("master", 0, 5), ("mesh", 3, 0)) if tier == "quick" else
                          [(r, l, n2) for r, l in (("net", 2), ("routing", 1), ("master", 0), ("mesh", 3), ("net", 0)) for n2 in range(8)]):
        for same in (False, True):
            out.append(Job("O1-short-payload-after-a-handled-frame", o1_then_short, dict(role=role, lvl=lvl, n2=n2, same_call=same),
                           cost=40, shards=4))
    for kind in ("none", "neg", "low", "high"):
        out.append(Job("O2-is_address_valid", o2_valid, dict(kind=kind), cost=5, crosscheck=True))
    return out


META = {
    "bounds": {"quick": "O1: 4 roles, 3 levels each (symbolic digits), payload lengths from {0,1,7,8,9,10,12,32} (six on the master), all payload bytes "
                        "symbolic, pipe symbolic, one symbolic outcome per transmitted packet, master with 2 arbitrary leases; on the master also two-frame sequences whose first frame is a multicast-addressed frame of type 195 / 194 / 1 from 0o4444, or an address request relayed from 0o12 (symbolic id / reserved), and whose second frame is arbitrary (after the relayed request: any frame the node discards); "
                        "O2: a symbolic in [-65536, 131072] and None",
               "thorough": "lengths 0..13, 16, 20, 24, 28, 31, 32 on every role and level; two-frame sequences on every role whose first frame has one of 12 "
                           "types (user, NETWORK_EXT_DATA, the three fragment types, 193..199) and is addressed to the multicast address from an unassigned "
                           "node or to the node itself from 0o12; a short payload of every length 0..7 after a handled frame"},
    "outside": ["sequences of more than 2 frames; two-frame sequences whose first frame is routed elsewhere other than from the master to a direct child (the last-hop family)", "lease tables with more than 2 entries (C16 goes to 5)",
                "the mesh node at the unassigned address 0o4444 is covered as level-4 instance 0o4444 of the symbolic digits"],
    "assumptions": ["one outcome per transmitted packet (all automatic and forced retries of that packet share it)",
                    "virtual clock, 1 ms tick; SimRadio; reference address predicate specs/net_spec.valid_or_multicast"],
}

if __name__ == "__main__":
    import sys
    sys.exit(main(sys.modules[__name__]))
