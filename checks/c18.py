"""C18 - every advertisement is a well-formed BLE packet for the channel it is sent on.

L1  CRC by induction on the length (closed lemmas, one path each thanks to the if-conversion of
    fake_ble.crc24_ble regenerated from the current source): (a) for ALL 2^24 register states and
    all bytes, crc24_ble([b], init_val=s) is one byte-step of the reference bit-serial LFSR;
    (b) chain law crc24_ble(d, s) == crc24_ble(d[1:], state after d[0]) for every length 2..29
    with all bytes symbolic.  (a) + (b) give equality with the reference CRC-24 for every length
    <= 29; the empty buffer is checked directly.
L2  whitener(buf, coef) = XOR with the reference whitening sequence of channel 37 / 38 / 39 for
    every length 0..32 with all bytes symbolic; swap_bits / reverse_bits / chunk against one-line
    specifications.
O1  advertise(): every name length (bytes / ASCII str / None), show_pa_level x PA level, symbolic
    MAC (bytes, int, None -> symbolic urandom), one chunk with symbolic data_type or a list of
    chunks around the capacity boundary: the W_TX_PAYLOAD bytes, bit-reversed and de-whitened with
    the reference sequence OF THE CHANNEL THE RADIO IS TUNED TO, parse as a non-connectable
    advertising PDU with the right length byte, the MAC, the flags, the optional fields, the
    caller's chunks verbatim and the CRC-24 of the prefix (same real function: correct by L1);
    len_available() is exact; ValueError iff the packet does not fit.
O2  channel / whitening synchronisation: histories over hop_channel(), channel = symbolic,
    leaving and re-entering `with`, and a second FakeBLE on the same radio, then O1.
"""
from checks.common import *  # noqa
from specs import ble_spec as BS
from vsym.core import SBytes

PROPERTY = "C18"


def fb():
    import circuitpython_nrf24l01.fake_ble as m
    return m


def l1_step(ctx):
    s = ctx.int("state", 0, 0xFFFFFF)
    b = ctx.int("byte", 0, 255)
    out = fb().crc24_ble(SBytes([b]) if ctx.symbolic else bytes([b]), 0x65B, s)
    ctx.check(bytes_eq(out, BS.crc_wire(BS.crc24_step(s, b))), "one byte through crc24_ble == one byte-step of the reference LFSR")
    ctx.check(bytes_eq(fb().crc24_ble(b""), BS.crc_wire(0x555555)), "the CRC of an empty buffer is the preset 0x555555")
    ctx.check(bytes_eq(fb().crc24_ble(SBytes([b]) if ctx.symbolic else bytes([b])), BS.crc_wire(BS.crc24_step(0x555555, b))),
              "default polynomial 0x65B and preset 0x555555")
    ctx.reached()


def l1_chain(ctx, n):
    s = ctx.int("state", 0, 0xFFFFFF)
    d = ctx.bytes("d", n)
    whole = fb().crc24_ble(d, 0x65B, s)
    first = fb().crc24_ble(d[:1], 0x65B, s)
    mid = BS.crc_unwire(blist(first))
    rest = fb().crc24_ble(d[1:], 0x65B, mid)
    ctx.check(bytes_eq(whole, rest), "chain law: crc(d, s) == crc(d[1:], state after d[0])")
    ctx.reached()


def l2_whiten(ctx, n, ci):
    m = fb()
    d = ctx.bytes("d", n)
    out = m.whitener(d, (ci + 37) | 0x40)
    seq = BS.whiten_seq(37 + ci, n)
    ctx.check(len(out) == n and bytes_eq(out, [x ^ w for x, w in zip(blist(d), seq)]), "whitener == XOR with the reference sequence")
    ctx.check(bytes_eq(d, blist(d)), "input untouched")
    if n:
        ctx.check(m.swap_bits(d[0]) == BS.rev8(d[0]), "swap_bits reverses the bit order of a byte")
        ctx.check(bytes_eq(m.reverse_bits(d), [BS.rev8(x) for x in blist(d)]), "reverse_bits reverses every byte")
    t = ctx.int("data_type", -300, 600)
    ctx.check(bytes_eq(m.chunk(d, t), [n + 1, t & 0xFF] + blist(d)), "chunk = length, type, data")
    ctx.reached()


def make_ble(ctx, clock, radio=None, tag=""):
    radio = radio or SimRadio(clock, "ble")
    b = fb().FakeBLE(FakeSpiDev(radio), 0, Pin(radio))
    return radio, b


def expected_pdu(mac, pa, name, chunks):
    ads = [(1, [5])]
    if pa is not None:
        ads.append((0x0A, [pa & 0xFF]))
    if name is not None:  # an empty name is emitted as an empty "shortened local name" structure
        ads.append((8, list(name)))
    body = list(mac)
    for t, data in ads:
        body += [len(data) + 1, t] + list(data)
    for c in chunks:
        body += list(c)
    return [0x42, len(body)] + body


def advertise_and_judge(ctx, radio, b, mac, pa, name, chunks, single, what=""):
    """call advertise() inside the caller's `with` block and judge the radio payload"""
    m = fb()
    name_cost = 0 if name is None else len(name) + 2
    free_doc = 18 - name_cost - (3 if pa is not None else 0)
    ctx.check(b.len_available() == free_doc, what + "len_available() = bytes still free")
    mark, sent0 = len(radio.log), len(radio.sent)
    try:
        if single is not None:
            b.advertise(single[0], single[1])
        else:
            b.advertise([(SBytes(c) if ctx.symbolic else bytes(c)) for c in chunks])
        raised = False
    except ValueError:
        raised = True
    fits = free_doc - sum(len(c) for c in chunks) >= 0
    ctx.check(raised == (not fits), what + "ValueError exactly when the packet would not fit in 32 bytes")
    tx = [d for c, d, *_ in radio.log[mark:] if c in (0xA0, 0xB0)]
    if raised:
        ctx.check(len(tx) == 0, what + "nothing is loaded when it does not fit")
        return
    ctx.check(len(tx) == 1 and len(tx[0]) == 32, what + "one 32-byte radio payload is loaded")
    if len(tx) != 1:
        return
    air = radio.sent[sent0:]
    ctx.check(len(air) >= 1 and len(air[-1]["data"]) == 32 and bool(bytes_eq(air[-1]["data"], tx[0])),
              what + "and that payload is what the radio puts on the air")
    rf_ch = ctx.conc(radio.reg[5])
    ctx.check(rf_ch in BS.FREQ_TO_CHANNEL, what + "the radio is tuned to a BLE advertising frequency")
    if rf_ch not in BS.FREQ_TO_CHANNEL:
        return
    pkt = BS.air_to_pdu(tx[0], rf_ch)
    want = expected_pdu(mac, pa, name, chunks)
    ctx.check(len(want) + 3 <= 32, what + "fits")
    ctx.check(bytes_eq(pkt[:len(want)], want),
              what + "de-whitened for the tuned channel: 0x42, length, MAC, flags, optional fields, chunks verbatim")
    crc = m.crc24_ble(SBytes(pkt[:len(want)]) if ctx.symbolic else bytes(pkt[:len(want)]))
    ctx.check(bytes_eq(pkt[len(want):len(want) + 3], crc), what + "followed by the CRC-24 of the packet")
    ctx.observe("pkt", pkt[:len(want) + 3])


def o1_advertise(ctx, name_kind, name_len, pa, mac_kind, chunk_lens, single, pa_after_show=False):
    rnd = []

    def urandom(n):
        rnd.append(blist(ctx.bytes("urandom%d" % len(rnd), n)))
        return SBytes(rnd[-1]) if ctx.symbolic else bytes(rnd[-1])
    clock = fresh_env(ctx, urandom=urandom)
    radio, b = make_ble(ctx, clock)
    hops = ctx.choice("hops", 3)
    with b:
        for _ in range(hops):
            b.hop_channel()
        if mac_kind == "bytes":
            mac = ctx.bytes("mac", 6)
            b.mac = mac
            mac = blist(mac)
        elif mac_kind == "int":
            v = ctx.int("mac_int", 0, (1 << 48) - 1)
            b.mac = v
            mac = [(v >> (8 * i)) & 0xFF for i in range(6)]
        else:
            b.mac = None
            mac = rnd[-1]
        ctx.check(bytes_eq(b.mac, mac), "mac attribute")
        name = None
        if name_kind == "bytes":
            name = ctx.bytes("name", name_len)
        elif name_kind == "str":
            name = ctx.str("name", name_len, 32, 126)
        pa_val = None
        if pa is not None and not pa_after_show:
            b.pa_level = pa
        try:
            b.name = name
            ctx.check(name is None or name_len <= 18, "name longer than 18 bytes must be refused")
        except ValueError:
            ctx.check(name is not None and name_len > 18, "ValueError only for a name that can never fit")
            ctx.reached()
            return
        if pa is not None:
            try:
                b.show_pa_level = True
                ctx.check(name is None or name_len <= 16, "show_pa_level must be refused when there is no room")
                if pa_after_show:
                    b.pa_level = pa  # the field must announce the level in effect when the advertisement is made
                pa_val = pa
            except ValueError:
                ctx.check(name is not None and name_len > 16, "ValueError only when the name leaves no room for the PA level")
        nm = None if name is None else (blist(name) if name_kind == "bytes" else
                                        (list(name.v) if ctx.symbolic else [ord(c) for c in name]))
        if single:
            data = ctx.bytes("data", chunk_lens[0])
            dt = ctx.int("data_type", 0, 255)
            chunks = [[chunk_lens[0] + 1, dt] + blist(data)] if chunk_lens[0] else []
            advertise_and_judge(ctx, radio, b, mac, pa_val, nm, chunks, (data, dt))
        else:
            chunks = [blist(ctx.bytes("chunk%d" % i, ln)) for i, ln in enumerate(chunk_lens)]
            advertise_and_judge(ctx, radio, b, mac, pa_val, nm, chunks, None)
    ctx.check((radio.reg[0] & 2) == 0, "leaving the block powers down")
    ctx.reached()


CH_OPS = ("hop", "channel", "reenter", "other_ble", "channel_invalid", "foreign_retune_then_channel", "advertise_short")
EXTRA_OPS = ("stale_tx_1", "stale_tx_2", "stale_tx_3")  # another driver object left 1..3 payloads in the shared radio's TX FIFO


def o2_sync(ctx, ops):
    clock = fresh_env(ctx, urandom=lambda n: bytes(range(n)))
    radio, b = make_ble(ctx, clock)
    other = None
    b.__enter__()
    for i, op in enumerate(ops):
        if op == "hop":
            b.hop_channel()
        elif op == "channel":
            b.channel = (2, 26, 80)[ctx.choice("freq%d" % i, 3)]
        elif op == "channel_invalid":
            v = ctx.int("bad%d" % i, 0, 125)
            ctx.assume(s_and(v != 2, v != 26, v != 80))
            b.channel = v
        elif op == "foreign_retune_then_channel":
            # another object retunes the shared radio behind this object's back (no `with` discipline); the next channel
            # assignment through THIS object must put radio and whitening back in step
            if other is None:
                _r, other = make_ble(ctx, clock, radio)
                b.__enter__()
            for _ in range(1 + ctx.choice("foreign_hops%d" % i, 2)):
                other.hop_channel()
            b.channel = (2, 26, 80)[ctx.choice("freq%d" % i, 3)]
        elif op == "advertise_short":
            # an earlier, shorter advertisement on the same object (whatever it leaves behind must not affect the next one)
            advertise_and_judge(ctx, radio, b, blist(b.mac), None, None, [], (b"", 0xFF), "earlier short advertisement: ")
        elif op == "reenter":
            b.__exit__()
            b.__enter__()
        elif op == "named_block":
            # an earlier block of the same object advertised with a name and the PA-level field; leaving the block withdraws
            # both (documented), so later advertisements carry neither and have the full 18 bytes free again
            nm = blist(ctx.bytes("earlier_name", 5))
            b.name = SBytes(nm) if ctx.symbolic else bytes(nm)
            b.show_pa_level = True
            advertise_and_judge(ctx, radio, b, blist(b.mac), 0, nm, [], (b"", 0xFF), "earlier named advertisement: ")
            b.__exit__()
            b.__enter__()
            ctx.check(b.name is None and not b.show_pa_level, "leaving the block withdraws the name and the PA-level field")
        elif op.startswith("stale_tx_"):
            from circuitpython_nrf24l01.rf24 import RF24
            b.__exit__()
            plain = RF24(FakeSpiDev(radio), 0, Pin(radio))
            with plain:
                plain.listen = False
                for k in range(int(op[-1])):
                    plain.write(bytes([k + 1] * 5), write_only=True)  # uploaded, never sent (CE stays low)
            ctx.check(len(radio.tx_fifo) == int(op[-1]), "the scenario was reached (%s payloads wait in the TX FIFO)" % op[-1])
            b.__enter__()
        else:
            b.__exit__()
            if other is None:
                _r, other = make_ble(ctx, clock, radio)
            with other:
                other.hop_channel()
                advertise_and_judge(ctx, radio, other, blist(other.mac), None, None, [[2, 0xFF, 7]], (b"\x07", 0xFF), "second object: ")
            b.__enter__()
    ctx.check(b.channel == radio.reg[5], "channel attribute = RF_CH")
    mac = blist(ctx.bytes("mac", 6))
    b.mac = SBytes(mac) if ctx.symbolic else bytes(mac)
    advertise_and_judge(ctx, radio, b, mac, None, None, [[3, 0x16, 1, 2]], (b"\x01\x02", 0x16), "after %s: " % "/".join(ops))
    b.__exit__()
    ctx.reached()


def jobs(tier):
    out = [Job("L1a-crc-byte-step", l1_step, {}, cost=5, crosscheck=True)]
    for n in ((2, 3, 11, 29) if tier == "quick" else range(2, 30)):
        out.append(Job("L1b-crc-chain-law", l1_chain, dict(n=n), cost=n, crosscheck=(n <= 3)))
    for n in ((0, 1, 17, 32) if tier == "quick" else range(0, 33)):
        for ci in range(3):
            out.append(Job("L2-whitening", l2_whiten, dict(n=n, ci=ci), cost=1 + n // 8, crosscheck=(n <= 17)))
    # O1
    names = [("none", 0)] + [(k, n) for k in ("bytes", "str") for n in ((0, 1, 5, 13, 14, 16, 17, 18, 19) if tier == "quick" else range(0, 21))]
    for kind, nl in names:
        for pa in ((None, -12) if tier == "quick" else (None, -18, -12, -6, 0)):
            free = 18 - (0 if kind == "none" else nl + 2) - (3 if pa is not None else 0)
            for cl in sorted({0, max(0, free - 3), max(0, free - 2), max(0, free - 1)}):
                if tier == "quick" and kind == "str" and nl not in (1, 14):
                    continue
                out.append(Job("O1-advertise-single-chunk", o1_advertise,
                               dict(name_kind=kind, name_len=nl, pa=pa, mac_kind="bytes", chunk_lens=[cl], single=True), cost=3))
    for pa in (-18, -12, -6):
        out.append(Job("O1-advertise-pa-set-after-show", o1_advertise, dict(name_kind="bytes", name_len=2, pa=pa, mac_kind="bytes",
                                                                            chunk_lens=[3], single=True, pa_after_show=True), cost=3))
    for mk in ("int", "none"):
        out.append(Job("O1-advertise-mac-forms", o1_advertise, dict(name_kind="bytes", name_len=3, pa=None, mac_kind=mk,
                                                                   chunk_lens=[4], single=True), cost=3))
    for lens in ([3, 4], [9, 9], [9, 10], [5, 6, 7], [6, 6, 7], [18], [19], [], [1, 1, 1]):
        for kind, nl in (("none", 0), ("bytes", 4)):
            out.append(Job("O1-advertise-chunk-list", o1_advertise, dict(name_kind=kind, name_len=nl, pa=None, mac_kind="bytes",
                                                                         chunk_lens=[max(0, x - (nl + 2 if kind != "none" and i == 0 else 0)) for i, x in enumerate(lens)],
                                                                         single=False), cost=3))
    # O2
    depth = 3 if tier == "quick" else 4
    seqs = [()]
    for _ in range(depth):
        seqs = seqs + [s + (o,) for s in seqs if len(s) == max(len(x) for x in seqs) for o in CH_OPS]
    for s in sorted(set(seqs)):
        out.append(Job("O2-channel-whitening-sync", o2_sync, dict(ops=list(s)), cost=1 + len(s)))
    for s in (("named_block",), ("named_block", "hop"), ("channel", "named_block"), ("named_block", "advertise_short")):
        out.append(Job("O2-advertise-after-a-named-block", o2_sync, dict(ops=list(s)), cost=3))
    for e in EXTRA_OPS:
        for s in ((e,), (e, "hop"), ("channel", e)) + ((("advertise_short", e), (e, "reenter")) if tier == "thorough" else ()):
            out.append(Job("O2-advertise-with-payloads-left-in-the-TX-FIFO", o2_sync, dict(ops=list(s)), cost=3))
    return out


META = {
    "bounds": {"quick": "L1: all 2^24 states x 256 bytes for the byte step; chain law for n = 2, 3, 11, 29 symbolic bytes; L2: lengths "
                        "0/1/17/32 x 3 channels, all bytes symbolic; O1: names of length 0,1,5,13,14,16,17,18,19 (bytes; str for 1 "
                        "and 14) and None, PA field off / -12 dBm, symbolic MAC (bytes, 48-bit int, urandom), one chunk of a "
                        "length around the capacity boundary with symbolic data_type, 18 chunk lists, 0-2 hops; O2: all histories "
                        "of depth <= 3 over hop_channel / channel = BLE frequency / channel = other value / re-enter / a second "
                        "FakeBLE advertising on the same radio; advertise() after another RF24 object left 1..3 payloads in the shared TX FIFO (the advertisement must be what goes on the air last)",
               "thorough": "chain law for every n in 2..29, whitening for every length 0..32, names 0..20, every PA level, O2 "
                           "depth 4"},
    "outside": ["non-ASCII str names (utf-8 multi-byte)", "names / chunks beyond the stated lengths",
                "the 4th+ byte of padding after the CRC in the 32-byte radio payload (not part of the BLE packet)",
                "RF-level validity (preamble, access address 0x8E89BED6 is programmed as the pipe address: C09/C03 territory)"],
    "assumptions": ["specs/ble_spec.py: bit-serial whitening and CRC reference from the Core specification; its self-test checks the "
                    "published channel-37 whitening bytes", "the CRC field is compared with the real crc24_ble of the same prefix "
                    "(identical term); its correctness for every length <= 29 is L1"],
}

if __name__ == "__main__":
    import sys
    BS.selftest()
    sys.exit(main(sys.modules[__name__]))
