"""C09 - `with` restores an object's complete radio configuration.

Two driver objects of any class mix (RF24, FakeBLE, RF24Network, RF24Mesh) share ONE radio
model.  Object A runs a block with 1-3 configuration calls (symbolic arguments, the C03
alphabet or the class-appropriate subset); object B then runs its own block - an RF24 B
rewrites every configuration register with symbolic values, the other classes establish their
very different class configuration plus one call; then each object's block is re-entered.
Entering a block must put EVERY configuration register back to what that object had at the
end of its previous block (CONFIG compared with PWR_UP set); leaving a block must power the
radio down with CE low.
"""
from checks.common import *  # noqa
from checks.c03 import CALLS, GROUPS
from checks.c04 import sym_addr

PROPERTY = "C09"

BLE_CALLS = {
    "channel": (lambda c, t: c.int(t, 0, 125), lambda o, a: setattr(o, "channel", a)),
    "hop_channel": (lambda c, t: None, lambda o, a: o.hop_channel()),
    "pa_level": (lambda c, t: (-18, -12, -6, 0)[c.choice(t, 4)], lambda o, a: setattr(o, "pa_level", a)),
    "payload_length": (lambda c, t: c.int(t, -3, 40), lambda o, a: setattr(o, "payload_length", a)),
    "interrupt_config": (lambda c, t: tuple(c.choice("%s_%d" % (t, i), 2) for i in range(3)),
                         lambda o, a: o.interrupt_config(bool(a[0]), bool(a[1]), bool(a[2]))),
    "listen_on": (lambda c, t: None, lambda o, a: setattr(o, "listen", True)),
    "listen_off": (lambda c, t: None, lambda o, a: setattr(o, "listen", False)),
    "power_off": (lambda c, t: None, lambda o, a: setattr(o, "power", False)),
    "arc": (lambda c, t: c.int(t, -3, 20), lambda o, a: setattr(o, "arc", a)),
    "close_rx_pipe": (lambda c, t: c.int(t, 0, 5), lambda o, a: o.close_rx_pipe(a)),
    # what a FakeBLE refuses (NotImplementedError) must leave no trace in what it restores on re-entry, whichever inherited
    # entry point the application tried
    "refused_set_auto_ack": (lambda c, t: (c.choice(t + "_on", 2), c.int(t + "_pipe", 0, 5)), lambda o, a: o.set_auto_ack(bool(a[0]), a[1])),
    "refused_auto_ack": (lambda c, t: c.int(t, 0, 63), lambda o, a: setattr(o, "auto_ack", a)),
    "refused_set_dynamic_payloads": (lambda c, t: (c.choice(t + "_on", 2), c.int(t + "_pipe", 0, 5)),
                                     lambda o, a: o.set_dynamic_payloads(bool(a[0]), a[1])),
    "refused_dynamic_payloads": (lambda c, t: c.int(t, 0, 63), lambda o, a: setattr(o, "dynamic_payloads", a)),
    "refused_data_rate": (lambda c, t: (1, 2, 250)[c.choice(t, 3)], lambda o, a: setattr(o, "data_rate", a)),
    "refused_address_length": (lambda c, t: c.int(t, 3, 5), lambda o, a: setattr(o, "address_length", a)),
    "refused_ack": (lambda c, t: c.choice(t, 2), lambda o, a: setattr(o, "ack", bool(a))),
    "refused_crc": (lambda c, t: c.int(t, 0, 2), lambda o, a: setattr(o, "crc", a)),
    "refused_load_ack": (lambda c, t: c.int(t, 0, 5), lambda o, a: o.load_ack(b"xy", a)),
    "refused_open_rx_pipe": (lambda c, t: c.int(t, 0, 5), lambda o, a: o.open_rx_pipe(a, b"1Node")),
    "refused_open_tx_pipe": (lambda c, t: None, lambda o, a: o.open_tx_pipe(b"2Node")),
    "refused_set_auto_retries": (lambda c, t: (c.int(t + "_d", 250, 4000), c.int(t + "_c", 0, 15)), lambda o, a: o.set_auto_retries(*a)),
    "refused_set_payload_length": (lambda c, t: (c.int(t + "_l", 1, 32), c.int(t + "_p", 0, 5)), lambda o, a: o.set_payload_length(*a)),
}
NET_CALLS = {
    "channel": (lambda c, t: c.int(t, 0, 125), lambda o, a: setattr(o, "channel", a)),
    "data_rate": (lambda c, t: (1, 2, 250)[c.choice(t, 3)], lambda o, a: setattr(o, "data_rate", a)),
    "pa_level": (lambda c, t: (-18, -12, -6, 0)[c.choice(t, 4)], lambda o, a: setattr(o, "pa_level", a)),
    "crc": (lambda c, t: c.int(t, 0, 2), lambda o, a: setattr(o, "crc", a)),
    "set_auto_retries": (lambda c, t: (c.int(t + "d", 250, 4000), c.int(t + "c", 0, 15)), lambda o, a: o.set_auto_retries(*a)),
    "set_dynamic_payloads": (lambda c, t: (bool(c.choice(t + "e", 2)), c.int(t + "p", 0, 5)), lambda o, a: o.set_dynamic_payloads(*a)),
    "listen_off": (lambda c, t: None, lambda o, a: setattr(o, "listen", False)),
    "power_off": (lambda c, t: None, lambda o, a: setattr(o, "power", False)),
    "interrupt_config": (lambda c, t: tuple(c.choice("%s_%d" % (t, i), 2) for i in range(3)),
                         lambda o, a: o.interrupt_config(bool(a[0]), bool(a[1]), bool(a[2]))),
    "node_address": (lambda c, t: sym_addr(c, t, 1 + c.choice(t + "lvl", 4)), lambda o, a: setattr(o, "node_address", a)),
    "multicast_level": (lambda c, t: c.int(t, -1, 6), lambda o, a: setattr(o, "multicast_level", a)),
}


def make(kind, radio):
    from circuitpython_nrf24l01.rf24 import RF24
    from circuitpython_nrf24l01.fake_ble import FakeBLE
    from circuitpython_nrf24l01.rf24_network import RF24Network
    from circuitpython_nrf24l01.rf24_mesh import RF24Mesh
    spi, ce = FakeSpiDev(radio), Pin(radio)
    if kind == "rf24":
        return RF24(spi, 0, ce)
    if kind == "ble":
        return FakeBLE(spi, 0, ce)
    if kind == "net":
        return RF24Network(spi, 0, ce, 0o2)
    return RF24Mesh(spi, 0, ce, 0)


# reading an attribute (many getters refresh a shadow from the radio) must not change what the object restores on re-entry
GETTER_ATTRS = ("channel", "data_rate", "pa_level", "is_lna_enabled", "crc", "address_length", "arc", "ard", "auto_ack", "dynamic_payloads",
                "payload_length", "ack", "allow_ask_no_ack", "power", "listen", "is_plus_variant", "tx_full", "pipe", "irq_dr", "last_tx_arc")
GETTER_CALLS = {"get_" + a: ((lambda c, t: None), (lambda nrf, _a, _n=a: getattr(nrf, _n))) for a in GETTER_ATTRS}
GETTER_CALLS.update({
    "get_auto_ack_pipe": ((lambda c, t: c.int(t, 0, 5)), lambda nrf, a: nrf.get_auto_ack(a)),
    "get_dynamic_payloads_pipe": ((lambda c, t: c.int(t, 0, 5)), lambda nrf, a: nrf.get_dynamic_payloads(a)),
    "get_payload_length_pipe": ((lambda c, t: c.int(t, 0, 5)), lambda nrf, a: nrf.get_payload_length(a)),
    "get_address": ((lambda c, t: c.int(t, -1, 5)), lambda nrf, a: nrf.address(a)),
    "get_fifo": ((lambda c, t: None), lambda nrf, a: (nrf.fifo(True), nrf.fifo(False, True), nrf.any(), nrf.available())),
    "scramble": ((lambda c, t: None), lambda nrf, a: scramble(SCR[0], nrf, "a")),
})
SCR = [None]


def calls_of(kind):
    if kind == "rf24":
        d = {k: (v[0], v[1]) for k, v in CALLS.items()}
        d.update(GETTER_CALLS)
        return d
    return BLE_CALLS if kind == "ble" else NET_CALLS


def scramble(ctx, nrf, tag="b"):
    """an RF24 B rewrites every configuration register, with symbolic values wherever that does not fork"""
    nrf.channel = ctx.int(tag + "_channel", 0, 125)
    nrf.data_rate = 250
    nrf.pa_level = -12
    nrf.crc = 1
    nrf.address_length = 3
    nrf.set_auto_retries(250 + 250 * ctx.int(tag + "_ard", 0, 15), ctx.int(tag + "_arc", 0, 15))
    nrf.auto_ack = (ctx.int(tag + "_aa", 0, 31) << 1) | 1  # bit 0 fixed: the driver branches on it
    nrf.dynamic_payloads = (ctx.int(tag + "_dyn", 0, 31) << 1) | 1
    nrf.payload_length = [ctx.int(tag + "_pl%d" % i, 1, 32) for i in range(6)]
    nrf.allow_ask_no_ack = False
    nrf.interrupt_config(False, True, False)
    for p in range(6):
        nrf.open_rx_pipe(p, ctx.bytes(tag + "_rx%d" % p, 5 if p < 2 else 1))
    nrf.close_rx_pipe(3)
    nrf.open_tx_pipe(ctx.bytes(tag + "_tx", 5))


def snap(radio):
    s = radio.config_snapshot()
    s[0] = s[0] | 2
    return s


def same(ctx, now, then, what):
    for k in then:
        ctx.check(now[k] == then[k], "%s: register %s is back in the state that object last established" % (what, k))


def after_exit(ctx, radio, what):
    ctx.check((radio.reg[0] & 2) == 0, what + ": leaving a block powers the radio down")
    ctx.check(radio.ce == False, what + ": leaving a block leaves CE low")  # noqa: E712


def h_blocks(ctx, kind_a, kind_b, calls_a, call_b, kind_c=None):
    def urandom(n):
        return ctx.bytes("urandom%d" % len(rnd), n) if not rnd.append(1) else None
    rnd = []
    clock = fresh_env(ctx, urandom=urandom)
    SCR[0] = ctx
    radio = SimRadio(clock)
    a = make(kind_a, radio)
    last_a = snap(radio)
    after_exit(ctx, radio, "A constructed") if kind_a in ("rf24", "ble") else None
    b = make(kind_b, radio)
    last_b = snap(radio)
    ca, cb = calls_of(kind_a), calls_of(kind_b)
    with a:
        same(ctx, snap(radio), last_a, "first entry of A")
        for i, name in enumerate(calls_a):
            gen, do = ca[name]
            args = gen(ctx, "a_%s%d" % (name, i))
            try:
                do(a, args)
            except (ValueError, IndexError, NotImplementedError):
                pass  # documented rejections (C03, FakeBLE); the configuration must still be restored
        last_a = snap(radio)
    after_exit(ctx, radio, "A's block")
    with b:
        same(ctx, snap(radio), last_b, "first entry of B")
        if kind_b == "rf24" and call_b == "scramble":
            scramble(ctx, b)
        elif call_b:
            gen, do = cb[call_b]
            try:
                do(b, gen(ctx, "b_%s" % call_b))
            except (ValueError, IndexError):
                pass
        last_b = snap(radio)
    after_exit(ctx, radio, "B's block")
    if kind_c is not None:  # a third object established and used between the other two
        c3 = make(kind_c, radio)
        last_c = snap(radio)
        with c3:
            same(ctx, snap(radio), last_c, "first entry of C")
            gen, do = calls_of(kind_c)["channel"]
            try:
                do(c3, gen(ctx, "c_channel"))
            except (ValueError, IndexError):
                pass
            last_c = snap(radio)
        after_exit(ctx, radio, "C's block")
    with a:
        same(ctx, snap(radio), last_a, "re-entry of A")
    after_exit(ctx, radio, "A's second block")
    with b:
        same(ctx, snap(radio), last_b, "re-entry of B")
    after_exit(ctx, radio, "B's second block")
    if kind_c is not None:
        with c3:
            same(ctx, snap(radio), last_c, "re-entry of C")
        after_exit(ctx, radio, "C's second block")
    with a:
        same(ctx, snap(radio), last_a, "third entry of A")
    ctx.observe("a", [last_a[k] for k in sorted(last_a, key=str)])
    ctx.reached()


def jobs(tier):
    out = []
    rf = list(CALLS)
    seqs = [(n,) for n in rf]
    trip = [("open_rx_pipe5", "open_tx_pipe5", "listen_on"), ("open_rx_pipe3", "open_tx_pipe5", "listen_on"),
            ("open_rx_pipe5", "listen_off", "open_tx_pipe5"), ("listen_on", "open_tx_pipe5", "listen_off"),
            ("ack_on", "auto_ack_false", "dyn_false"), ("start_carrier", "stop_carrier", "listen_on"),
            ("open_tx_pipe3", "listen_on", "close_rx_pipe"), ("data_rate", "pa_level", "start_carrier")]
    pairs = set()
    for name, grp in GROUPS.items():
        if tier == "thorough" or name in ("PIPES", "CONFIG"):
            pairs |= {(x, y) for x in grp for y in grp}
    if tier == "quick":
        pairs |= {(x, "ack_on") for x in ("dyn_false", "dyn_int", "set_dyn_off", "dyn_list3")} | {("ack_on", "dyn_false"), ("ack_on", "ack_off"),
                                                                                                  ("auto_ack_false", "ack_on")}
    seqs += sorted(pairs) + trip
    if tier == "thorough":
        g = GROUPS["PIPES"]
        seqs += [(x, y, z) for x in g for y in g for z in g]
    for s in seqs:
        out.append(Job("two-objects", h_blocks, dict(kind_a="rf24", kind_b="rf24", calls_a=list(s), call_b="scramble"), cost=3))
    # A gives every register a non-default (symbolic) value, then merely READS one attribute as its last action
    for g in GETTER_CALLS:
        if g != "scramble":
            out.append(Job("two-objects-getter-last", h_blocks, dict(kind_a="rf24", kind_b="rf24", calls_a=["scramble", g], call_b="scramble"), cost=4))
            if tier == "thorough":
                out.append(Job("two-objects-getter-last", h_blocks, dict(kind_a="rf24", kind_b="ble", calls_a=["pa_level_tuple", "data_rate", g],
                                                                         call_b="channel"), cost=4))
    for s in [(n,) for n in rf][:: (1 if tier == "thorough" else 3)] + trip[:3]:
        for kb in ("ble", "net", "mesh"):
            out.append(Job("two-objects", h_blocks, dict(kind_a="rf24", kind_b=kb, calls_a=list(s), call_b="channel"), cost=3))
    three = [("rf24", "ble", "net"), ("net", "rf24", "ble"), ("ble", "mesh", "rf24"), ("rf24", "rf24", "mesh"), ("mesh", "net", "ble")]
    for ka, kb, kc in three:
        for call in (("channel", "pa_level", "listen_off") if ka != "rf24" else ("channel", "data_rate", "open_tx_pipe5", "listen_on")):
            if call not in calls_of(ka):
                continue
            out.append(Job("three-objects", h_blocks, dict(kind_a=ka, kind_b=kb, calls_a=[call],
                                                           call_b="scramble" if kb == "rf24" else "channel", kind_c=kc), cost=6))
    for ka, table in (("ble", BLE_CALLS), ("net", NET_CALLS), ("mesh", NET_CALLS)):
        for n in table:
            if ka == "mesh" and n == "node_address":
                continue  # mesh nodes get their address from the master
            for kb in ("rf24", "ble", "net") if tier == "thorough" else ("rf24", "ble" if ka != "ble" else "net"):
                out.append(Job("two-objects", h_blocks, dict(kind_a=ka, kind_b=kb, calls_a=[n],
                                                             call_b="scramble" if kb == "rf24" else "channel"), cost=4))
    return out


META = {
    "bounds": {"quick": "A = RF24 with every single call of the C03 alphabet, all ordered pairs inside the PIPES and CONFIG groups "
                        "and 8 triples (symbolic arguments), B = RF24 rewriting every configuration register with symbolic "
                        "values; A = RF24 against B = FakeBLE / RF24Network / RF24Mesh; A = FakeBLE / RF24Network / RF24Mesh "
                        "(class-appropriate calls) against B of another class; schedule A, B, A, B, A; five class mixes of three objects (schedule A, B, C, A, B, C)",
               "thorough": "all pairs of all groups, all PIPES triples, every class pair"},
    "outside": ["more than three objects; a third object is exercised for 5 class mixes only",
                "blocks with more than 3 calls", "non-register state (FakeBLE name / show_pa_level are reset by design)",
                "FIFO contents and status flags (not configuration)"],
    "assumptions": ["configuration registers = CONFIG, EN_AA, EN_RXADDR, SETUP_AW, SETUP_RETR, RF_CH, RF_SETUP, RX_ADDR_P0-5, "
                    "TX_ADDR, RX_PW_P0-5, DYNPD, FEATURE", "os.urandom replaced by symbolic bytes"],
}

if __name__ == "__main__":
    import sys
    sys.exit(main(sys.modules[__name__]))
