"""C04 - tree routing connects all 781 addresses; pipe addresses never collide.

Everything is over *symbolic* node addresses (digits 1..5 symbolic, the two levels enumerated),
so one solver run per level pair covers all 781 x 780 pairs, and over symbolic pairwise
distinct address_prefix / address_suffix bytes (the defaults are one instance).

O1  one routing step of the real node X for destination D (first hop acknowledged): the
    TX address on the air is the reference physical address of the reference next hop
    (parent, or child towards D) on the right pipe, the header says X -> D, and the next hop
    is one step closer (induction on the tree distance: <= 8 hops along the unique path).
O2  listener side: after `node_address = N` the radio's six effective pipe addresses are the
    reference addresses (pipes 2-5 = own first byte + bytes 1..4 of pipe 1: "differ only in
    the first byte"), all pipes open; pipe 0 = level address with allow_multicast, unicast else.
O3  uniqueness, on the reference (tied to the code by O2): (A,pa) != (B,pb) => different
    physical address; level addresses equal iff same level, and differ from all unicast ones.
O4  multicast(level=L) transmits to exactly the level address of L.
"""
from checks.common import *  # noqa
from specs import net_spec as NS

PROPERTY = "C04"


def sym_addr(ctx, name, lvl):
    """a symbolic valid address of the given level"""
    a = 0
    for k in range(lvl):
        a = a + (ctx.int("%s_d%d" % (name, k + 1), 1, 5) << (3 * k))
    return a


def sym_bytes_distinct(ctx, custom):
    if not custom:
        return NS.DEFAULT_PREFIX, list(NS.DEFAULT_SUFFIX)
    vals = [ctx.int("addr_byte%d" % i, 0, 255) for i in range(7)]
    for i in range(7):
        for j in range(i):
            ctx.assume(vals[i] != vals[j])
    return vals[0], vals[1:]


def new_net(clock, addr, cls=None, name="node"):
    from circuitpython_nrf24l01.rf24_network import RF24Network
    radio = SimRadio(clock, name)
    net = (cls or RF24Network)(FakeSpiDev(radio), 0, Pin(radio), addr)
    return radio, net


def set_bytes(ctx, net, prefix, suffix):
    from vsym.core import SByteArray
    if ctx.symbolic:
        net.address_prefix = SByteArray([prefix])
        net.address_suffix = SByteArray(list(suffix))
    else:
        net.address_prefix = bytearray([prefix])
        net.address_suffix = bytearray(suffix)


def effective_addr(radio, p):
    if p == 0:
        return list(radio.addr[0x0A])
    if p == 1:
        return list(radio.addr[0x0B])
    return [radio.reg[0x0A + p]] + list(radio.addr[0x0B][1:])


def listeners_ok(ctx, radio, n, multicast, prefix, suffix, what, p0_level=None):
    """the six effective pipe addresses are the reference ones (pipe 0 = address of level `p0_level` when overridden)"""
    ctx.check(radio.reg[2] == 0x3F, what + ": all six pipes open")
    for p in range(6):
        want = NS.phys(n, p, multicast, prefix, suffix)
        if p == 0 and p0_level is not None:
            want = NS.level_addr(p0_level, prefix, suffix)
        ctx.check(bytes_eq(effective_addr(radio, p), want), what + ": pipe %d listens on the reference address" % p)
    ctx.check(radio.reg[3] == 3, what + ": 5-byte addresses")


def override_level(ctx, net, mlvl):
    """multicast_level = symbolic L: changes the level subscribed to on pipe 0 and nothing about unicast routing"""
    if mlvl is None:
        return None
    L = ctx.int("multicast_level", -1, 6)
    net.multicast_level = L
    return s_ite(L < 0, 0, s_ite(L > 4, 4, L))


def o1_route_step(ctx, lx, ld, custom, multicast, mlvl=None, twice=False, acktype=False):
    from circuitpython_nrf24l01.network.structs import RF24NetworkHeader
    clock = fresh_env(ctx)
    x = sym_addr(ctx, "X", lx)
    d = sym_addr(ctx, "D", ld)
    ctx.assume(x != d)
    radio, net = new_net(clock, 0)
    radio.link = ScriptedLink(lambda n: True)
    prefix, suffix = sym_bytes_distinct(ctx, custom)
    set_bytes(ctx, net, prefix, suffix)
    net.allow_multicast = multicast
    if mlvl == "before":
        # a history: the object first lived at another address and had its multicast level overridden; then it moves to X
        net.node_address = sym_addr(ctx, "W", ctx.choice("previous_level", 5))
        net.multicast_level = ctx.int("previous_multicast_level", 0, 4)
    net.node_address = x
    ctx.check(net.node_address == x, "node_address assignment took effect")
    p0 = override_level(ctx, net, mlvl if mlvl != "before" else None)
    sent0 = len(radio.sent)
    body = ctx.bytes("body", 2)
    # acktype: a message type that makes the origin wait for a NETWORK_ACK when the route has a relay (here none ever arrives:
    # what send() answers is C13's subject; where the frame goes and what X listens on afterwards is this property's)
    mtype = ctx.int("type", 65, 127) if acktype else 0
    ok = net.send(RF24NetworkHeader(d, mtype), body)
    if acktype:
        ctx.check(ok == (NS.next_hop(x, d) == d), "send() of an ack-type message: True between neighbours, False without NETWORK_ACK")
    else:
        ctx.check(ok == True, "send() succeeds when the first hop acknowledges")  # noqa: E712
    sent = radio.sent[sent0:]
    ctx.check(len(sent) == 1, "exactly one frame is transmitted")
    if len(sent) != 1:
        return
    nh = NS.next_hop(x, d)
    down = NS.is_descendant(d, x)
    ctx.check(s_or(nh == NS.parent(x), s_and(NS.parent(nh) == x, NS.valid(nh))), "next hop is the parent or a direct child")
    ctx.check(NS.distance(nh, d) == NS.distance(x, d) - 1, "next hop is one step closer on the unique tree path")
    ctx.check(NS.distance(x, d) <= 8, "tree distance at most 8")
    pipe = s_ite(down, 5, NS.child_index(x))
    want = NS.phys(nh, pipe, False, prefix, suffix)
    ctx.check(bytes_eq(sent[0]["addr"], want), "TX address = the address the next hop listens on for this link")
    data = sent[0]["data"]
    ctx.check(len(data) == 10, "frame = 8 header bytes + message")
    ctx.check(s_and(data[0] | (data[1] << 8) == x, data[2] | (data[3] << 8) == d), "header says from X to D")
    ctx.check(bytes_eq(data[8:], body), "message bytes unmodified")
    ctx.observe("tx_addr", sent[0]["addr"])
    # "one that the intended next hop listens on and that no other node listens on" must survive traffic: after its own
    # transmission X is back on exactly its reference addresses
    listeners_ok(ctx, radio, x, multicast, prefix, suffix, "after the routing step", p0)
    if twice:
        # ... and a second message to another destination is routed just as well, and leaves the listeners just as intact
        d2 = sym_addr(ctx, "E", ctx.choice("second_dest_level", 5))
        ctx.assume(s_and(d2 != x, d2 != d))
        s1 = len(radio.sent)
        ok2 = net.send(RF24NetworkHeader(d2, mtype), body)
        if not acktype:
            ctx.check(ok2 == True, "a second send() succeeds")  # noqa: E712
        sent2 = radio.sent[s1:]
        ctx.check(len(sent2) == 1, "second message: exactly one frame is transmitted")
        if len(sent2) == 1:
            nh2 = NS.next_hop(x, d2)
            want2 = NS.phys(nh2, s_ite(NS.is_descendant(d2, x), 5, NS.child_index(x)), False, prefix, suffix)
            ctx.check(bytes_eq(sent2[0]["addr"], want2), "second message: TX address = the address the next hop listens on")
        listeners_ok(ctx, radio, x, multicast, prefix, suffix, "after the second routing step", p0)
    ctx.reached()


def o2_shared_radio(ctx, lvl, lvl2):
    """two node objects (two roles of one device, on symbolic addresses of two levels) share one radio, each used inside its own
    `with` block: whenever a role's block is entered the radio listens on exactly that role's six reference addresses"""
    from circuitpython_nrf24l01.rf24_network import RF24Network
    clock = fresh_env(ctx)
    n1, n2 = sym_addr(ctx, "N", lvl), sym_addr(ctx, "M", lvl2)
    ctx.assume(n1 != n2)
    radio, a = new_net(clock, 0)
    b = RF24Network(FakeSpiDev(radio), 0, Pin(radio), 0)
    with a:
        a.node_address = n1
        listeners_ok(ctx, radio, n1, True, NS.DEFAULT_PREFIX, list(NS.DEFAULT_SUFFIX), "first role, first block")
    with b:
        b.node_address = n2
        listeners_ok(ctx, radio, n2, True, NS.DEFAULT_PREFIX, list(NS.DEFAULT_SUFFIX), "second role, first block")
    for k in range(2):
        with a:
            listeners_ok(ctx, radio, n1, True, NS.DEFAULT_PREFIX, list(NS.DEFAULT_SUFFIX), "first role, re-entered")
        with b:
            listeners_ok(ctx, radio, n2, True, NS.DEFAULT_PREFIX, list(NS.DEFAULT_SUFFIX), "second role, re-entered")
    ctx.reached()


def o2_listener(ctx, lvl, custom, multicast, mlvl=None):
    clock = fresh_env(ctx)
    n = sym_addr(ctx, "N", lvl)
    radio, net = new_net(clock, 0)
    prefix, suffix = sym_bytes_distinct(ctx, custom)
    set_bytes(ctx, net, prefix, suffix)
    net.allow_multicast = multicast
    net.node_address = n
    p0 = override_level(ctx, net, mlvl)
    listeners_ok(ctx, radio, n, multicast, prefix, suffix, "after node_address", p0)
    ctx.observe("pipes", [effective_addr(radio, p) for p in range(6)])
    ctx.check(net.parent == NS.parent(n) if lvl else True, "parent attribute")
    ctx.check(net.multicast_level == (lvl if p0 is None else p0), "level attribute")
    ctx.reached()


def o3_unique(ctx, la, lb, multicast):
    a, b = sym_addr(ctx, "A", la), sym_addr(ctx, "B", lb)
    pa, pb = ctx.int("pa", 0, 5), ctx.int("pb", 0, 5)
    prefix, suffix = sym_bytes_distinct(ctx, True)

    def addr(n, p):
        uni = NS.phys(n, p, False, prefix, suffix)
        if not multicast:
            return uni
        lv = NS.level_addr(NS.level(n), prefix, suffix)
        return [s_ite(p == 0, l, u) for l, u in zip(lv, uni)]
    xa, xb = addr(a, pa), addr(b, pb)
    same = bytes_eq(xa, xb)
    if multicast:
        shared = s_and(pa == 0, pb == 0, NS.level(a) == NS.level(b))
        ctx.check(same == s_or(s_and(a == b, pa == pb), shared),
                  "two pipe addresses coincide iff same (node, pipe) or both are pipe 0 of one level")
    else:
        ctx.check(same == s_and(a == b, pa == pb), "two pipe addresses coincide iff same (node, pipe)")
    ctx.reached()


def o4_multicast(ctx, lx, lvl, custom):
    clock = fresh_env(ctx)
    x = sym_addr(ctx, "X", lx)
    radio, net = new_net(clock, 0)
    radio.link = ScriptedLink(lambda n: False)
    prefix, suffix = sym_bytes_distinct(ctx, custom)
    set_bytes(ctx, net, prefix, suffix)
    net.node_address = x
    sent0 = len(radio.sent)
    if lvl == "default":
        ok = net.multicast(b"hi", 1)
        eff = lx
    elif lvl == "sym":
        L = ctx.int("level", -2, 7)
        ok = net.multicast(b"hi", 1, L)
        eff = s_ite(L < 0, 0, s_ite(L > 4, 4, L))
    else:
        ok = net.multicast(b"hi", 1, lvl)
        eff = lvl
    sent = radio.sent[sent0:]
    ctx.check(len(sent) == 1, "the multicast is transmitted, once (also when the level code equals the sender's own address)")
    if len(sent) == 1:
        ctx.check(bytes_eq(sent[0]["addr"], NS.level_addr(eff, prefix, suffix)),
                  "a multicast to level L is transmitted to exactly the level-L address")
        ctx.check(sent[0]["no_ack"] == True, "multicast does not request an acknowledgement")  # noqa: E712
    ctx.reached()


def jobs(tier):
    out = []
    for lvl, lvl2 in (((2, 1), (0, 3), (4, 4)) if tier == "quick" else [(a, b) for a in range(5) for b in range(5) if (a, b) != (0, 0)]):
        out.append(Job("O2-pipe-addresses-of-two-roles-sharing-one-radio", o2_shared_radio, dict(lvl=lvl, lvl2=lvl2), cost=6))
    for lx in range(5):
        for ld in range(5):
            if lx == 0 and ld == 0:
                continue  # X != D is impossible
            for custom in ((False,) if tier == "quick" and (lx + ld) % 2 else (False, True)):
                for mc in ((True,) if tier == "quick" else (True, False)):
                    out.append(Job("O1-routing-step", o1_route_step, dict(lx=lx, ld=ld, custom=custom, multicast=mc),
                                   cost=(1 + lx) * (1 + ld) * (4 if custom else 1)))
            if (lx + ld) % 2 == 0 or tier != "quick":
                out.append(Job("O1-two-routing-steps", o1_route_step, dict(lx=lx, ld=ld, custom=False, multicast=True, twice=True),
                               cost=(1 + lx) * (1 + ld) * 3))
            if (lx + 2 * ld) % 3 == 0 or tier != "quick":
                out.append(Job("O1-routing-step-after-a-move", o1_route_step, dict(lx=lx, ld=ld, custom=False, multicast=True, mlvl="before"),
                               cost=(1 + lx) * (1 + ld) * 3))
            if (lx + ld) % 3 == 1 or tier != "quick":
                out.append(Job("O1-routing-step-ack-type", o1_route_step, dict(lx=lx, ld=ld, custom=False, multicast=True, acktype=True,
                                                                                twice=(lx + ld) % 2 == 0), cost=(1 + lx) * (1 + ld) * 4))
            # the multicast_level override moves pipe 0 to another level and must leave unicast routing alone
            out.append(Job("O1-routing-step", o1_route_step, dict(lx=lx, ld=ld, custom=False, multicast=True, mlvl="sym"),
                           cost=(1 + lx) * (1 + ld) * 2))
    for lvl in range(5):
        for custom in (False, True):
            for mc in (True, False):
                out.append(Job("O2-listener", o2_listener, dict(lvl=lvl, custom=custom, multicast=mc), cost=lvl + 1))
            out.append(Job("O2-listener", o2_listener, dict(lvl=lvl, custom=custom, multicast=True, mlvl="sym"), cost=lvl + 2))
    for la in range(5):
        for lb in range(5):
            for mc in (True, False):
                out.append(Job("O3-uniqueness-lemma", o3_unique, dict(la=la, lb=lb, multicast=mc), cost=la + lb, crosscheck=True))
    for lx in range(5):
        for lvl in ("default", "sym") if tier == "quick" else ("default", "sym", 0, 1, 2, 3, 4):
            for custom in (False, True):
                out.append(Job("O4-multicast-address", o4_multicast, dict(lx=lx, lvl=lvl, custom=custom), cost=lx + 2))
    return out


META = {
    "bounds": {
        "quick": "O1: all 25 (level of X, level of D) pairs with every digit symbolic in 1..5 (= all 781x780 ordered pairs), "
                 "default bytes and 7 symbolic pairwise distinct prefix/suffix bytes, allow_multicast on; O2: all 781 nodes "
                 "x 6 pipes, default and symbolic bytes, multicast on/off; O3: all ((A,pa),(B,pb)) over symbolic bytes; "
                 "O4: every sender level x level argument symbolic in -2..7 / default",
        "thorough": "as quick plus allow_multicast off in O1, symbolic bytes for every level pair, each concrete level argument",
    },
    "outside": ["address_prefix / address_suffix bytes that are not pairwise distinct (documented as the user's duty)",
                "address_prefix longer than one byte", "the hop-by-hop walk is an induction argument: O1 shows every step "
                "reduces the reference tree distance (<= 8) by one and lands on the address O2 shows the next hop listens on"],
    "assumptions": ["reference model specs/net_spec.py (written from docs/network_docs/topology.rst; its self-test reproduces "
                    "the documented tables and the documented example route)",
                    "first hop acknowledged (ScriptedLink), SimRadio SPI model"],
}

if __name__ == "__main__":
    import sys
    NS.selftest()
    sys.exit(main(sys.modules[__name__]))
