"""C02 - send()/resend() report the true fate of the payload and always terminate.

One real RF24 in TX mode against an abstract peer whose acknowledgement of every single
on-air attempt is a fresh symbolic boolean (the fault schedule: "packet lost" and "ACK lost"
are both "no acknowledgement came back" from the transmitter's side).  Ground truth (attempts
on the air, which exchange was acknowledged, ACK payload attached) is kept by the radio model.
"""
from checks.common import *  # noqa

PROPERTY = "C02"


def h_history(ctx, hist, fr_max, arc_max, aa0, ask, ackpl, send_only, ard="sym", latency=0, driver="full", ackpl_opt=False, static=False, cfg=None):
    clock = fresh_env(ctx)
    lite = driver == "lite"
    radio, nrf = new_lite(clock) if lite else new_rf24(clock)
    radio.latency = latency
    pl_cache = {}

    def ack_payload(n):
        if not ackpl:
            return None
        if n not in pl_cache:
            # ackpl_opt: the peer may or may not have loaded an ACK payload for this exchange (an empty ACK otherwise)
            present = bool(ctx.choice("ackpl_present%d" % n, 2)) if ackpl_opt else True
            pl_cache[n] = blist(ctx.bytes("ackpl%d" % n, ackpl)) if present else None
        return pl_cache[n]

    link = ScriptedLink(lambda n: ctx.bool("ack%d" % n), ack_payload)
    radio.link = link
    if not lite:
        nrf.allow_ask_no_ack = True  # (always allowed by the lite driver)
    if static:  # static payload width (2 bytes, as the payloads below): the fate reported must not depend on the length mode
        nrf.dynamic_payloads = False
        nrf.payload_length = 2
    if cfg == "toggled":  # a configuration history whose net effect is nil: every feature switched the other way and back
        if not lite:
            nrf.allow_ask_no_ack = False
            nrf.allow_ask_no_ack = True
            nrf.auto_ack = False
            nrf.auto_ack = True
            nrf.dynamic_payloads = False
            nrf.dynamic_payloads = True
        nrf.ack = True
        nrf.ack = False
    if ackpl:
        nrf.ack = True
    if not aa0:
        nrf.set_auto_ack(False, 0)  # (not available in the lite driver: auto-ack is always on)
    arc = ctx.int("arc", 0, arc_max)
    ard = ctx.int("ard", 250, 4000) if ard == "sym" else ard
    if lite:
        nrf.ard = ard
        nrf.arc = arc
    elif cfg == "retries":
        # the retry configuration reached through a history of the three setters: what counts is the last value of each
        nrf.arc = (arc + 2) % 16
        nrf.set_auto_retries(((ard + 750) % 4000) if not isinstance(ard, int) else 500, arc)
        nrf.ard = ard
    else:
        nrf.set_auto_retries(ard, arc)
    nrf.listen = False  # "in TX mode"
    no_wait = ask or not aa0
    ard_ns = ((ard - 250) // 250 + 1) * 250_000
    last_failed = None  # payload sitting in the TX FIFO after a failure

    def judge(call, result, bufs, fr, t0, air0, sent0):
        """compare one call's results with the model's ground truth"""
        nonlocal last_failed
        air = link.on_air[air0:]
        exch = radio.sent[sent0:]
        results = result if call == "sendlist" else [result]
        fr = ctx.conc(fr)  # keeps the bounds below linear for the solver (at most 4 values)
        total_attempts = 0
        ctx.check(isinstance(results, list) and len(results) == len(bufs), "one result per payload")
        # every packet on the air during this call carries one of this call's payloads
        # walk the exchanges in order: each payload owns the exchanges until the next payload's first
        k = 0
        per = []
        for i, buf in enumerate(bufs):
            own = []
            while k < len(exch) and (len(own) == 0 or exch[k]["uid"] == own[0]["uid"]):
                own.append(exch[k])
                k += 1
            per.append(own)
        ctx.check(k == len(exch), "no exchange beyond this call's payloads")
        for i, (buf, own, res) in enumerate(zip(bufs, per, results)):
            ctx.check(len(own) >= 1, "the payload was put on the air")
            if not own:
                continue
            for e in own:
                ctx.check(bytes_eq(e["data"], blist(buf)),
                          "packets on the air carry only this call's payload")
            attempts = sum(e["attempts"] for e in own)
            total_attempts += attempts
            bound = (1 + arc) * (1 + fr)
            if no_wait:
                ctx.check(attempts == 1, "exactly one transmission without acknowledgement")
                ctx.check(res == True, "True: sent without waiting for an acknowledgement")  # noqa: E712
                last_failed = None
                continue
            ctx.check(attempts <= bound, "attempts bounded by (1+arc)*(1+force_retry)")
            acked = own[-1]["acked"]
            if acked:
                pay = None
                # the acknowledged attempt is the last one on the air for this payload
                idx = air0 + sum(sum(e["attempts"] for e in o) for o in per[:i]) + attempts - 1
                if ackpl and not send_only:
                    pay = pl_cache.get(idx)
                if pay is not None:
                    ctx.check(not isinstance(res, bool) and res is not None and len(res) == len(pay),
                              "the peer's ACK payload is returned instead of True")
                    if not isinstance(res, bool) and res is not None and len(res) == len(pay):
                        ctx.check(bytes_eq(res, pay), "ACK payload returned byte-for-byte")
                else:
                    ctx.check(res == True, "True iff the transmission was acknowledged")  # noqa: E712
                last_failed = None
            else:
                ctx.check(res == False, "False iff every attempt went unacknowledged")  # noqa: E712
                ctx.check(attempts == bound, "False only after all automatic and forced retries were used")
                last_failed = blist(buf)
        dt = clock.now - t0
        # the attempt count is bounded above by (1+arc)(1+force_retry) per payload (checked above), so
        # this bounds the elapsed virtual time by the retry configuration
        ctx.check(dt <= total_attempts * (ard_ns + 500_000),
                  "returns within the time bounded by the retry configuration")

    mix = send_only == "mix"
    for step, call in enumerate(hist):
        t0, air0, sent0 = clock.now, len(link.on_air), len(radio.sent)
        if mix:
            send_only = bool(ctx.choice("send_only%d" % step, 2))
        if call == "send":
            fr = ctx.int("fr%d" % step, 0, fr_max)
            buf = ctx.bytes("buf%d" % step, 2)
            res = nrf.send(buf, ask, fr, send_only)
            judge(call, res, [buf], fr, t0, air0, sent0)
        elif call == "sendlist":
            fr = ctx.int("fr%d" % step, 0, fr_max)
            bufs = [ctx.bytes("buf%d_%d" % (step, j), 2) for j in range(2)]
            res = nrf.send(bufs, ask, fr, send_only)
            judge(call, res, bufs, fr, t0, air0, sent0)
        else:  # resend
            expect_payload = last_failed
            res = nrf.resend(send_only)
            if expect_payload is None:
                ctx.check(res == False, "resend() with nothing to resend returns False")  # noqa: E712
                ctx.check(len(link.on_air) == air0, "resend() with nothing to resend transmits nothing")
            else:
                judge("resend", res, [expect_payload], 0, t0, air0, sent0)
        ctx.observe("res%d" % step, res if isinstance(res, (bool, list)) or res is None else blist(res))
    ctx.check(not radio.unspecified, "no use of radio behaviour the specification leaves open")
    ctx.reached()


def jobs(tier):
    out = []
    base = (True, False, 0, False)  # aa0, ask, ackpl, send_only
    modes = [base, (True, False, 0, True), (True, True, 0, False), (False, False, 0, False),
             (True, False, 2, False), (True, False, 1, True)]
    ards = (250, 1500, 4000)
    if tier == "quick":
        mixm = [(True, False, 2, "mix")]
        plan = [  # history, fr_max, arc_max, modes, symbolic ard?
            (("send", "send"), 0, 2, mixm, False), (("send", "resend"), 0, 2, mixm, False), (("send", "send", "send"), 0, 1, mixm, False), (("send", "send", "resend"), 0, 1, mixm, False),
            (("send", "resend", "send"), 0, 1, mixm, False), (("send", "send", "send"), 1, 0, mixm, False),
            (("send",), 1, 15, modes, False), (("send",), 3, 5, modes, False), (("send",), 1, 3, [base, modes[4]], True),
            (("send", "send"), 1, 4, modes, False), (("send", "resend"), 1, 4, modes, False),
            (("sendlist",), 1, 4, modes, False), (("resend",), 0, 3, [base], False),
            (("send", "resend", "send"), 0, 3, [base, modes[4]], False),
            (("send", "send", "resend"), 0, 2, [base], False), (("send", "resend"), 0, 2, [base], True),
        ]
    else:
        mixm = [(True, False, 2, "mix"), (True, False, 1, "mix")]
        plan = [
            (("send", "send"), 1, 7, mixm, False), (("send", "resend"), 1, 7, mixm, False), (("send", "send", "send"), 1, 1, mixm, False), (("send", "send", "send"), 0, 3, mixm, False),
            (("sendlist", "send"), 0, 3, mixm, False), (("send", "resend", "send"), 0, 3, mixm, False),
            (("send",), 3, 15, modes, False), (("send",), 3, 7, modes, True),
            (("send", "send"), 3, 7, modes, False), (("send", "send"), 1, 15, modes, False),
            (("send", "resend"), 3, 7, modes, False), (("send", "resend"), 1, 15, modes, False),
            (("sendlist",), 3, 7, modes, False), (("sendlist",), 1, 15, modes, False),
            (("sendlist", "send"), 1, 7, modes, False), (("send", "sendlist"), 1, 7, modes, False),
            (("resend",), 0, 15, modes, False), (("send", "resend", "send"), 1, 5, modes, False),
            (("send", "send", "send"), 1, 4, modes, False), (("send", "resend", "resend"), 1, 5, modes, False),
            (("send", "send", "resend"), 1, 4, modes, False), (("sendlist", "resend", "send"), 0, 5, modes, False),
            (("send", "resend"), 1, 3, modes, True), (("send", "send"), 1, 3, [base, modes[4]], True),
        ]
    n = 0
    for hist, fr_max, arc_max, ms, sym_ard in plan:
        for aa0, ask, ackpl, so in ms:
            n += 1
            out.append(Job("send-resend-history", h_history,
                           dict(hist=list(hist), fr_max=fr_max, arc_max=arc_max, aa0=aa0, ask=ask, ackpl=ackpl,
                                send_only=so, ard="sym" if sym_ard else ards[n % 3], **({"ackpl_opt": True} if so == "mix" else {})),
                           cost=(fr_max + 1) * arc_max * len(hist) ** 2 * (0.1 if (ask or not aa0) else 1)
                           * (8 if sym_ard else 1), shards=((8 if tier == "thorough" else 4) if len(hist) >= 3 and so == "mix" else 1)))
    for hist, (aa0, ask, ackpl, so) in ((("send", "resend"), (True, True, 0, False)), (("sendlist",), (True, True, 0, False)),
                                        (("send", "send"), (True, False, 0, False)), (("send", "resend"), (False, False, 0, False))):
        out.append(Job("send-resend-history-static-payloads", h_history,
                       dict(hist=list(hist), fr_max=1, arc_max=3, aa0=aa0, ask=ask, ackpl=ackpl, send_only=so, ard=250, static=True), cost=20))
    for hist, (aa0, ask, ackpl, so) in ((("send", "resend"), (True, True, 0, False)), (("sendlist",), (True, True, 0, False)),
                                        (("send", "send"), (True, False, 0, False)), (("send", "resend"), (True, False, 2, False))):
        out.append(Job("send-resend-history-after-toggling-the-features", h_history,
                       dict(hist=list(hist), fr_max=1, arc_max=3, aa0=aa0, ask=ask, ackpl=ackpl, send_only=so, ard=250, cfg="toggled"), cost=20))
    for hist in (("send",), ("send", "resend")):
        out.append(Job("send-resend-history-retries-set-through-a-setter-history", h_history,
                       dict(hist=list(hist), fr_max=1, arc_max=5, aa0=True, ask=False, ackpl=0, send_only=False, ard=1500, cfg="retries"), cost=30))
    # the same contract on the stripped-down driver (rf24_lite.RF24; C20 states its parity with the full driver in detail)
    for hist, fr_max, arc_max in ((("send", "send", "send"), 0, 1), (("send", "resend"), 1, 2), (("sendlist",), 1, 2)):
        out.append(Job("send-resend-history-lite-driver", h_history,
                       dict(hist=list(hist), fr_max=fr_max, arc_max=arc_max, aa0=True, ask=False, ackpl=2, send_only="mix", ard=1500,
                            driver="lite", ackpl_opt=True), cost=40))
    if tier == "thorough":
        for lat in (1, 2):
            for hist in (("send",), ("send", "resend"), ("send", "send")):
                out.append(Job("send-resend-history-latency", h_history,
                               dict(hist=list(hist), fr_max=1, arc_max=7, aa0=True, ask=False, ackpl=2,
                                    send_only=False, ard=1500, latency=lat), cost=300))
    return out


META = {
    "bounds": {
        "quick": "histories: send | send,send | send,resend | send([b1,b2]) | send,resend,send | resend | "
                 "send,send,resend; symbolic: arc 0..15 (0..3 / 0..2 for depth 3), ard 250..4000, force_retry 0..3 (single send) "
                 "/ 0..1 (depth 2) / 0 (depth 3), one acknowledgement boolean per on-air attempt (up to 64 per call), 2 "
                 "payload bytes per payload, ACK payload bytes; enumerated: auto-ack on pipe 0 on/off, ask_no_ack, ACK "
                 "payload of 0/1/2 bytes, send_only (also chosen per call)",
        "thorough": "as quick with force_retry 0..3 at depth 2, depth-3 histories with arc 0..7 and force_retry 0..1, "
                    "and a radio whose outcome becomes visible 1 or 2 SPI transactions late",
    },
    "outside": ["histories deeper than 3 calls", "a peer that is a real driver (C01 covers the loss-free link)",
                "ask_no_ack=True while allow_ask_no_ack is off (the product specification does not define "
                "W_TX_PAYLOAD_NOACK without EN_DYN_ACK)", "write() used directly without send()"],
    "assumptions": ["'in TX mode' = after `listen = False` (PWR_UP, PRIM_RX = 0, pipe 0 open for ACK reception)",
                    "every on-air attempt takes ARD + 500 us of virtual time; the time clause is checked in virtual time",
                    "SimRadio PTX engine: at most ARC+1 attempts, TX_DS on acknowledgement, MAX_RT otherwise, MAX_RT "
                    "blocks the FIFO until cleared (product specification 7.4-7.8)"],
}

if __name__ == "__main__":
    import sys
    sys.exit(main(sys.modules[__name__]))
