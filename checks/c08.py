"""C08 - RX/TX switching preserves the user's pipe-0 address and ACK reception.

Bounded model checking of open_rx_pipe(0, .) / close_rx_pipe(0) / open_tx_pipe / auto_ack /
set_auto_ack(., 0) / listen over every call history up to the depth bound; every address is a
fresh symbolic byte string (so "equal to / sharing bytes with the TX address" are instances),
of length 5 or 3; address_length enumerated 3..5.  A ghost keeps "the address the user last
opened pipe 0 with, or closed".  Monitors on the register file and the SPI / CE transcript:
 (i)   while the radio is in RX mode (from the listen setter's return on): pipe 0 is enabled
       with the user's bytes in RX_ADDR_P0, or disabled if the user never opened / has closed it;
 (ii)  right after open_tx_pipe() in TX mode (the user's last listen assignment was False)
       with auto-ack on pipe 0: pipe 0 enabled, RX_ADDR_P0 = TX_ADDR on the address width, and
       a send() to an acknowledging peer succeeds;
 (iii) CE is low at the SPI write that flips PRIM_RX and high for the whole time in RX mode.
"""
from checks.common import *  # noqa

PROPERTY = "C08"
OPS = ("open_rx0_5", "open_rx0_3", "close_rx0", "open_tx_5", "open_tx_3", "aa_on", "aa_off", "aa0_on", "aa0_off",
       "listen_on", "listen_off", "open_rx1")


def h_history(ctx, first, depth, aw, driver="full", ops=OPS):
    clock = fresh_env(ctx)
    radio, nrf = new_lite(clock) if driver == "lite" else new_rf24(clock)
    radio.link = ScriptedLink(lambda n: True)
    nrf.address_length = aw
    ghost, mode, aa0 = None, None, True
    rx_since = None  # index into ce_log at which RX mode was entered
    trace = []
    last_tx = None
    for step in range(depth):
        op = first[step] if step < len(first) else ops[ctx.choice("op%d" % step, len(ops))]
        trace.append(op)
        mark = len(radio.log)
        cfg_before = radio.reg[0]
        if op.startswith("open_rx0"):
            a = ctx.bytes("rx%d" % step, int(op[-1]))
            nrf.open_rx_pipe(0, a)
            ghost = blist(a)
        elif op == "open_rx1":  # another pipe in use (pipe 0 logic must not depend on it)
            nrf.open_rx_pipe(1, ctx.bytes("rx1_%d" % step, 5))
        elif op == "close_rx0":
            nrf.close_rx_pipe(0)
            ghost = None
        elif op.startswith("open_tx"):
            t = ctx.bytes("tx%d" % step, int(op[-1]))
            nrf.open_tx_pipe(t)
            last_tx = blist(t)
            ctx.check(bytes_eq(radio.addr[0x10][:len(last_tx)], last_tx), "open_tx_pipe programs TX_ADDR")
            if mode == "tx" and aa0:
                ctx.check((radio.reg[2] & 1) == 1, "(ii) after open_tx_pipe() in TX mode with auto-ack, pipe 0 is open")
                ctx.check(bytes_eq(radio.addr[0x0A][:aw], radio.addr[0x10][:aw]),
                          "(ii) after open_tx_pipe() in TX mode with auto-ack, pipe 0 holds the TX address")
        elif op == "aa_on":
            nrf.auto_ack = True
            aa0 = True
        elif op == "aa_off":
            nrf.auto_ack = False
            aa0 = False
        elif op == "aa0_on":
            nrf.set_auto_ack(True, 0)
            aa0 = True
        elif op == "aa0_off":
            nrf.set_auto_ack(False, 0)
            aa0 = False
        elif op == "listen_on":
            nrf.listen = True
            mode = "rx"
            rx_since = len(radio.ce_log)
            ctx.check((radio.reg[0] & 3) == 3, "listen = True: powered up in RX mode")
        elif op == "listen_off":
            nrf.listen = False
            mode = "tx"
            ctx.check((radio.reg[0] & 3) == 2, "listen = False: powered up in TX mode")
            ctx.check(radio.ce == False, "listen = False leaves CE low (Standby-I)")  # noqa: E712
        # (iii) CE low at the write that flips PRIM_RX
        cfg = cfg_before
        for cmd, data, ce, _t in radio.log[mark:]:
            if cmd == 0x20 and data:
                if bool(((data[0] ^ cfg) & 1) != 0):
                    ctx.check(ce == False, "(iii) CE is low while the role is being changed")  # noqa: E712
                cfg = data[0]
        if mode == "rx":
            ctx.check(radio.ce == True, "(iii) CE is high in RX mode")  # noqa: E712
            ctx.check(all(lvl for lvl, _i, _t in radio.ce_log[rx_since:]) if op != "listen_on" else True,
                      "(iii) CE stays high for the whole time in RX mode")
            # (i) is stated for the moment the radio ENTERS RX mode, and for the user's own pipe-0 calls while in it;
            # open_tx_pipe() issued while listening is the user's own doing and is not judged
            if op == "listen_on" or op.startswith("open_rx0") or op == "close_rx0":
                if ghost is None:
                    ctx.check((radio.reg[2] & 1) == 0, "(i) entering RX mode: pipe 0 is closed when the user never opened / has closed it")
                else:
                    ctx.check((radio.reg[2] & 1) == 1, "(i) entering RX mode: pipe 0 is open when the user opened it")
                    ctx.check(bytes_eq(radio.addr[0x0A][:len(ghost)], ghost),
                              "(i) entering RX mode: pipe 0 listens on the address the user last opened it with, never on the TX address")
    if mode == "tx" and aa0 and trace and trace[-1].startswith("open_tx"):
        ok = nrf.send(b"ping")
        ctx.check(ok == True, "(ii) send() to a listening (acknowledging) peer succeeds right after open_tx_pipe()")  # noqa: E712
    ctx.observe("trace", trace)
    ctx.observe("p0", radio.addr[0x0A])
    ctx.reached()


def jobs(tier):
    out = []
    if tier == "quick":
        for a in OPS:
            out.append(Job("switching-history", h_history, dict(first=[a], depth=3, aw=3), cost=20))
            out.append(Job("switching-history", h_history, dict(first=[a], depth=3, aw=4), cost=20))
        for a in OPS:
            for b in OPS:
                out.append(Job("switching-history", h_history, dict(first=[a, b], depth=4, aw=5), cost=12))
        # depth 5 for the histories that start by giving pipe 0 a user address and then a TX address
        for a in ("open_rx0_5", "open_rx0_3"):
            for b in ("open_tx_5", "open_tx_3"):
                for c in OPS:
                    out.append(Job("switching-history", h_history, dict(first=[a, b, c], depth=5, aw=5), cost=12))
    else:
        for a in OPS:
            for b in OPS:
                for c in OPS:
                    out.append(Job("switching-history", h_history, dict(first=[a, b, c], depth=5, aw=5), cost=10))
                for aw in (3, 4):
                    out.append(Job("switching-history", h_history, dict(first=[a, b], depth=4, aw=aw), cost=10))
    return out


META = {
    "bounds": {"quick": "all 12^4 call histories of depth 4 at address_length 5 and all 12^3 of depth 3 at address_length 3 and 4, the depth-5 histories "
                        "that start with open_rx_pipe(0, .), open_tx_pipe(.), "
                        "over the alphabet open_rx_pipe(0, 5 or 3 symbolic "
                        "bytes), close_rx_pipe(0), open_tx_pipe(5 or 3 symbolic bytes), auto_ack True/False, set_auto_ack(., 0), "
                        "listen True/False, open_rx_pipe(1, .)",
               "thorough": "all 12^5 histories of depth 5 at address_length 5 and all 12^4 at address_length 3 and 4"},
    "outside": ["pipes 1-5 (untouched by role switching)", "histories deeper than 5",
                "bytes of RX_ADDR_P0 beyond the length of the address the user supplied (an address shorter than "
                "address_length keeps whatever tail the register holds; the statement's 'the address the user opened it with' is "
                "read as the bytes the user supplied)", "'in TX mode' = the user's last listen assignment was False"],
    "assumptions": ["SimRadio: an acknowledgement is received only if pipe 0 is enabled and RX_ADDR_P0 equals TX_ADDR on the "
                    "address width (product specification 7.4.1)", "the peer acknowledges every packet (ScriptedLink)"],
}

if __name__ == "__main__":
    import sys
    sys.exit(main(sys.modules[__name__]))
