"""C06 - reassembly never delivers a message that was not sent in full.

Bounded model checking of the real FrameQueueFrag.  Ground truth: s senders (symbolic
origins and frame ids that MAY coincide (not both: one sender's messages carry different ids), symbolic user types), each
sends one message of f fragments produced by the reference fragmenter (specs/frag_spec).
The channel is a symbolic schedule: k events, event i delivers fragment number pick_i of
the pool (symbolic index: drop, duplicate, reorder, interleave and stray more/last without
first are all instances; the frame fields are ite-selected so that picks do not fork); after
every event a symbolic boolean lets the application dequeue.  One frame object is reused
for all events, as the network layer's frame_buf is.
"""
from checks.common import *  # noqa
from specs import frag_spec as FS

PROPERTY = "C06"


def sel(pool, idx, key):
    acc = pool[-1][key]
    for i in range(len(pool) - 2, -1, -1):
        acc = s_ite(idx == i, pool[i][key], acc)
    return acc


def h_schedule(ctx, frags, events, body, via="queue", qmax=None, prefix=(), mc_second=False):
    """frags: fragments per sender, e.g. [3, 2]; body: bytes per fragment"""
    from circuitpython_nrf24l01.network.structs import RF24NetworkFrame, FrameQueueFrag
    from vsym.core import SBytes
    node = radio = None
    if via == "update":
        # the same schedule delivered through a real node: radio RX FIFO -> update() -> the node's own queue
        from checks.c04 import new_net
        from checks.common import fresh_env
        clock = fresh_env(ctx)
        radio, node = new_net(clock, 0o2)
        me = 0o2
    else:
        me = ctx.int("to_node", 0, 0xFFF)
    msgs, pool = [], []
    for s, f in enumerate(frags):
        origin = ctx.int("origin%d" % s, 0, 0xFFF)
        if via == "update":
            from specs import net_spec as NS
            ctx.assume(s_and(NS.valid(origin), origin != me))
        fid = ctx.int("id%d" % s, 0, 0xFFFF)
        to = me
        if mc_second and s == 1:
            # the same sender's next message is a multicast: multicast() re-uses the frame id of the header sent last, so the two
            # streams differ in the destination field only
            ctx.assume(s_and(origin == msgs[0]["origin"], fid == msgs[0]["id"], me != 0o100))
            to = 0o100
        else:
            for m in msgs:  # different senders, or two messages of one sender (which then carry different frame ids)
                ctx.assume(s_or(origin != m["origin"], fid != m["id"]))
        mtype = ctx.int("type%d" % s, 0, 127)
        data = blist(ctx.bytes("msg%d" % s, f * body))
        msgs.append(dict(origin=origin, id=fid, type=mtype, data=data, to=to))
        pool.extend(FS.fragments(origin, to, fid, mtype, data, frag_size=body))
    q = FrameQueueFrag() if node is None else node.queue
    if qmax is not None:  # a queue this small refuses completed messages while the application has not read the earlier ones
        q.max_queue_size = qmax
    frame = RF24NetworkFrame()
    delivered = []
    # ghost (reference, strict, single cache): progress[s] = fragments of sender s accepted in order since its
    # last FIRST; done[s] = its message has been completed once.  Only used to scope the known finding.
    first_idx, n = [], 0
    for f in frags:
        first_idx.append(n)
        n += f
    progress = [0] * len(frags)
    done = [False] * len(frags)
    for ev in range(events):
        pick = ctx.int("pick%d" % ev, 0, len(pool) - 1) if ev >= len(prefix) else prefix[ev]
        for s, f in enumerate(frags):
            is_first = pick == first_idx[s]
            # KF-C06-1: the complete stream of a message delivered again after it was completed is delivered again
            ctx.known("KF-C06-1", s_and(is_first, done[s]))
            other_first = s_or(*[pick == first_idx[o] for o in range(len(frags)) if o != s]) if len(frags) > 1 else False
            nxt = pick == first_idx[s] + progress[s]
            newp = s_ite(is_first, 1, s_ite(other_first, 0, s_ite(s_and(progress[s] > 0, nxt), progress[s] + 1, progress[s])))
            done[s] = s_or(done[s], s_and(newp == f, progress[s] == f - 1))
            progress[s] = s_ite(newp == f, 0, newp)
        for k in ("from_node", "to_node", "frame_id", "message_type", "reserved"):
            setattr(frame.header, k, sel(pool, pick, k))
        msg = [sel(pool, pick, ("b", j)) for j in range(body)]
        frame.message = SBytes(msg) if ctx.symbolic else bytes(msg)
        if node is None:
            q.enqueue(frame)
        else:
            h = frame.header
            wire = [h.from_node & 0xFF, h.from_node >> 8, me & 0xFF, me >> 8, h.frame_id & 0xFF, h.frame_id >> 8,
                    h.message_type, h.reserved] + msg
            radio.inject_rx(1 + ev % 5, wire)
            node.update()
        if len(q) and bool(ctx.bool("dequeue%d" % ev)):
            while len(q):
                delivered.append(q.dequeue())
    while len(q):
        delivered.append(q.dequeue())
    counts = [0] * len(msgs)
    for d in delivered:
        hits = []
        for i, m in enumerate(msgs):
            if len(d.message) != len(m["data"]):
                hits.append(False)
                continue
            eq = s_and(d.header.from_node == m["origin"], d.header.frame_id == m["id"], d.header.to_node == m["to"],
                       d.header.message_type == m["type"], bytes_eq(d.message, m["data"]))
            hits.append(eq)
            counts[i] = counts[i] + s_ite(eq, 1, 0)
        ctx.check(s_or(*hits), "every delivered message is byte-for-byte one complete message that was sent, "
                               "with its type and origin")
        ctx.check(s_or(d.header.to_node == me, s_and(mc_second, d.header.to_node == 0o100)), "delivered message is addressed to this node")
    for c in counts:
        ctx.check(c <= 1, "one transmitted message is delivered at most once")
    ctx.observe("n_delivered", len(delivered))
    ctx.reached()


def h_inorder(ctx, n):
    """liveness side (keeps any repair honest): the real-size fragments of an n-byte message delivered in order,
    once each, are reassembled into exactly that message"""
    from circuitpython_nrf24l01.network.structs import RF24NetworkFrame, FrameQueueFrag
    from vsym.core import SBytes
    me = ctx.int("to_node", 0, 0xFFF)
    origin, fid, mtype = ctx.int("origin", 0, 0xFFF), ctx.int("id", 0, 0xFFFF), ctx.int("type", 0, 127)
    data = blist(ctx.bytes("msg", n))
    q = FrameQueueFrag()
    frame = RF24NetworkFrame()
    for fr in FS.fragments(origin, me, fid, mtype, data, frag_size=24):
        for k in ("from_node", "to_node", "frame_id", "message_type", "reserved"):
            setattr(frame.header, k, fr[k])
        msg = [fr[("b", j)] for j in range(fr["len"])]
        frame.message = SBytes(msg) if ctx.symbolic else bytes(msg)
        q.enqueue(frame)
    ctx.check(len(q) == 1, "a complete in-order fragment stream yields exactly one message")
    d = q.dequeue()
    if d is not None:
        ctx.check(s_and(d.header.from_node == origin, d.header.message_type == mtype, d.header.frame_id == fid,
                        len(d.message) == len(data) and bytes_eq(d.message, data)), "the message is the one sent")
    ctx.reached()


def h_e2e_abort_then_reuse(ctx, n_long, n_short):
    """end to end over the medium: a fragmented send() whose k-th frame (symbolic k, or none) is never acknowledged, then the
    application sends a short message with the SAME header object: whatever the receiver's queue hands out must be one of the
    two messages handed to send(), whole, with its type, at most once each"""
    from circuitpython_nrf24l01.rf24_network import RF24Network
    from circuitpython_nrf24l01.network.structs import RF24NetworkHeader
    from checks.common import fresh_env, SimRadio, FakeSpiDev, Pin, Medium
    clock = fresh_env(ctx)
    med = Medium()
    rs, rr = med.add(SimRadio(clock, "sender")), med.add(SimRadio(clock, "receiver"))
    snd = RF24Network(FakeSpiDev(rs), 0, Pin(rs), 0o1)
    rcv = RF24Network(FakeSpiDev(rr), 0, Pin(rr), 0)
    med.attach_node(rr, rcv.update)
    total = (n_long + 23) // 24
    lost_k = ctx.int("lost_frame", 0, total)  # == total: nothing is lost
    seen = []

    def loss(s, d, pkt, attempt):
        if s is not rs:
            return "ok"
        if pkt.uid not in seen:
            seen.append(pkt.uid)
        return kind if bool(lost_k == seen.index(pkt.uid)) else "ok"
    kind = ("pkt", "ack")[ctx.choice("lost_what", 2)]  # the frame itself, or only its acknowledgement (the receiver has it)
    med.loss = loss
    t1, t2 = ctx.int("type1", 0, 64), ctx.int("type2", 0, 64)
    long_msg, short_msg = blist(ctx.bytes("long", n_long)), blist(ctx.bytes("short", n_short))
    h = RF24NetworkHeader(0, t1)
    from vsym.core import SBytes
    med.running(rs, True)
    ok1 = snd.send(h, SBytes(long_msg) if ctx.symbolic else bytes(long_msg))
    h.to_node = 0
    if n_short:
        ctx.check(h.message_type == t1, "the caller's header shows its original type again (C11)")
        ok2 = snd.send(h, SBytes(short_msg) if ctx.symbolic else bytes(short_msg))
    med.running(rs, False)
    for _ in range(20):
        if not any(st[2] for st in med.nodes.values()):
            break
        med.run_pending()
    out = []
    while rcv.available():
        out.append(rcv.read())
    n1 = n2 = 0
    for d in out:
        is1 = len(d.message) == n_long and bool(s_and(d.header.message_type == t1, bytes_eq(d.message, long_msg)))
        is2 = len(d.message) == n_short and bool(s_and(d.header.message_type == t1, bytes_eq(d.message, short_msg)))
        ctx.check(is1 or is2, "every delivered message is byte-for-byte one complete message that was handed to send(), with its type")
        n1, n2 = n1 + is1, n2 + is2
    ctx.check(n1 <= 1 and (n2 <= 1 or long_msg[:n_short] == short_msg), "each at most once")
    ctx.reached()


def jobs(tier):
    out = []
    if tier == "quick":
        plan = [([2], 3), ([3], 4), ([2, 2], 4), ([3, 2], 4), ([3, 3], 4), ([4], 4), ([2], 5), ([3], 5)]
    else:
        plan = [([2], 6), ([3], 6), ([4], 6), ([2, 2], 6), ([3, 2], 5), ([3, 3], 5), ([4, 3], 5), ([2, 2, 2], 4),
                ([3, 2, 2], 4), ([4, 4], 5), ([5], 6), ([7], 5)]
    for frags, events in plan:
        out.append(Job("symbolic-delivery-schedule", h_schedule, dict(frags=frags, events=events, body=2),
                       cost=len(frags) * events ** 2, shards=(1 if tier == "quick" or events < 5 else 8)))
    for frags, events in ((([2, 2], 4), ([3, 2], 4)) if tier == "quick" else (([2, 2], 5), ([3, 2], 5), ([3, 3], 5), ([2, 3], 5))):
        out.append(Job("symbolic-delivery-schedule-unicast-then-multicast-with-the-same-id", h_schedule,
                       dict(frags=frags, events=events, body=2, mc_second=True), cost=len(frags) * events ** 2, shards=(1 if events < 5 else 8)))
    # a queue of one frame: the first message is delivered in order and stays unread while the second arrives (refused); the rest is free
    for frags, events, prefix in ((([2, 2], 6, [0, 1, 2]), ([3, 2], 6, [0, 1, 2])) if tier == "quick" else
                                  (([2, 2], 7, [0, 1, 2]), ([3, 2], 7, [0, 1, 2]), ([2, 3], 7, [0, 1]), ([2, 2, 2], 7, [0, 1, 2, 3]), ([2, 2], 5, []))):
        out.append(Job("symbolic-delivery-schedule-with-a-full-queue", h_schedule,
                       dict(frags=frags, events=events, body=2, qmax=1, prefix=prefix), cost=len(frags) * (events - len(prefix)) ** 2 * 4, shards=4))
    for frags, events in (([2], 3), ([3], 3), ([2, 2], 3)) if tier == "quick" else (([2], 4), ([3], 5), ([2, 2], 4), ([3, 2], 4), ([4], 4)):
        out.append(Job("symbolic-delivery-schedule-through-update", h_schedule, dict(frags=frags, events=events, body=2, via="update"),
                       cost=4 * len(frags) * events ** 2, shards=4))
    # (the second message may itself be fragmented: the same header object, hence the same frame id, for two different messages)
    for nl, ns in (((49, 5), (72, 24), (30, 0), (49, 49), (72, 50)) if tier == "quick" else
                   ((49, 5), (72, 24), (30, 0), (144, 1), (100, 10), (25, 24), (49, 49), (72, 50), (72, 72), (50, 72), (97, 96))):
        out.append(Job("end-to-end-aborted-send-then-header-reuse", h_e2e_abort_then_reuse, dict(n_long=nl, n_short=ns), cost=30))
    for n in ((25, 48, 49, 96, 121, 137, 144, 145, 168) if tier == "quick" else range(25, 169)):  # 2..7 fragments
        out.append(Job("in-order-stream-is-delivered", h_inorder, dict(n=n)))
    return out


META = {
    "bounds": {"quick": "1-2 senders x 2-4 fragments, 3-5 delivery events, every event a symbolic pick from the fragment pool, "
                        "symbolic dequeue points, symbolic origins/ids (may coincide)/types 0..127/contents, 2-byte fragment "
                        "bodies; the same schedules ([2], [3], [2,2] x 3 events) delivered through a real node's radio and update(); plus real-size in-order streams for messages of 25..168 bytes (2..7 fragments; quick: 9 lengths incl. 145 and 168)",
               "thorough": "up to 3 senders (4 events), up to 7 fragments, up to 6 events for one sender / two 2-fragment senders, 5 otherwise"},
    "outside": ["more than 3 senders / 7 fragments / 6 events", "more than one message per (origin, frame id); two messages of one origin carry different frame ids (each header gets a fresh id)",
                "original message types above 127 (NETWORK_EXT_DATA 131 is propagated by reference, see structs.py)",
                "24-byte fragment bodies in the schedule obligation (the queue never looks at the body length; bodies are 2 bytes "
                "so that picks merge)"],
    "assumptions": ["reference fragmenter specs/frag_spec.py (TMRh20 wire format: first/more/last, descending counter, "
                    "original type in the last fragment's reserved byte)"],
}

if __name__ == "__main__":
    import sys
    FS.selftest()
    sys.exit(main(sys.modules[__name__]))
