"""checks.netcommon - shared single-node harness pieces for the network properties
(C05, C07, C13, C14, C15): build a real node of any role at a symbolic address, put an
arbitrary frame into its RX FIFO, give every transmission a symbolic outcome, and judge the
radio / queue / air afterwards against the reference (specs/net_spec)."""
from checks.common import *  # noqa
from checks.c04 import sym_addr, effective_addr
from specs import net_spec as NS

ROLES = ("routing", "net", "mesh", "master")
CONSUMED = (128, 130, 131, 148, 149, 150, 193, 194, 195, 196, 197, 198)  # types the network layer uses itself


def build_node(ctx, clock, role, lvl, name="node"):
    """-> (radio, node, address).  Mesh nodes are placed with the private NetworkMixin._begin
    (the one private access of these harnesses: a mesh node's public way to an address is a
    complete join, which is C17's subject)."""
    from circuitpython_nrf24l01.rf24_network import RF24Network, RF24NetworkRoutingOnly
    from circuitpython_nrf24l01.rf24_mesh import RF24Mesh, RF24MeshNoMaster
    radio = SimRadio(clock, name)
    spi, ce = FakeSpiDev(radio), Pin(radio)
    if role == "master":
        node = RF24Mesh(spi, 0, ce, 0)
        if ctx.symbolic:  # the public lease table attribute: an association list instead of hashing symbolic ids
            from vsym.symcoll import SymDict
            node.dhcp_dict = SymDict()
        return radio, node, 0
    addr = sym_addr(ctx, name + "_addr", lvl)
    if role in ("routing", "net"):
        cls = RF24NetworkRoutingOnly if role == "routing" else RF24Network
        node = cls(spi, 0, ce, 0)
        node.node_address = addr
    else:
        node = RF24MeshNoMaster(spi, 0, ce, 7)
        node._begin(addr)
    return radio, node, addr


def per_packet_link(ctx, radio, always=None):
    """every packet put on the air gets ONE symbolic outcome (all of its attempts share it)"""
    outcome = {}

    def acks(n, pkt):
        if always is not None:
            return always
        if pkt.uid not in outcome:
            outcome[pkt.uid] = ctx.bool("acked_%s" % pkt.uid.replace("#", "_"))
        return outcome[pkt.uid]
    link = ScriptedLink(acks, by_packet=True)
    radio.link = link
    return link, outcome


def outage_link(ctx, radio, clock, choices_ms=(0, 2, 30, 60, None), only=None):
    """every packet put on the air meets an outage of a symbolic duration (one of `choices_ms`, None = for ever) that starts with
    its first attempt: attempts are acknowledged from then on.  `only(index)` restricts the outage to some packets (the others
    are acknowledged at once)"""
    first, pick = {}, {}

    def acks(n, pkt):
        if pkt.uid not in first:
            first[pkt.uid] = clock.now
            idx = len(first) - 1
            pick[pkt.uid] = choices_ms[ctx.choice("outage_%d" % idx, len(choices_ms))] if (only is None or only(idx)) else 0
        d = pick[pkt.uid]
        return d is not None and clock.now - first[pkt.uid] >= d * 1_000_000
    link = ScriptedLink(acks, by_packet=True)
    radio.link = link
    return link, pick


def touch_getters(node):
    """every read-only accessor a node offers (the radio facade of network/mixins.py and the node's own attributes): reading
    them is not a configuration change, so nothing about the node's behaviour may depend on whether they were read"""
    for name in ("power", "channel", "listen", "pa_level", "is_lna_enabled", "data_rate", "crc", "last_tx_arc", "node_address",
                 "fragmentation", "multicast_relay", "multicast_level", "parent", "max_message_length", "allow_multicast",
                 "tx_timeout", "route_timeout", "ret_sys_msg", "address_prefix", "address_suffix"):
        getattr(node, name, None)
    for p in range(6):
        node.get_dynamic_payloads(p)
        node.address(p)
    node.address()
    node.get_auto_retries()
    node.fifo(True)
    node.fifo(False)
    node.fifo(True, True)
    node.available()
    node.peek()


def header_of(payload):
    p = blist(payload)
    return dict(from_node=p[0] | (p[1] << 8), to_node=p[2] | (p[3] << 8), frame_id=p[4] | (p[5] << 8),
                message_type=p[6], reserved=p[7], body=p[8:])


def distinct_packets(radio, sent0=0):
    """the packets put on the air since sent0 (retransmissions of one FIFO entry collapsed)"""
    out, seen = [], set()
    for e in radio.sent[sent0:]:
        if e["uid"] not in seen:
            seen.add(e["uid"])
            out.append(e)
    return out


def listening_ok(ctx, radio, addr, what, multicast=True):
    """C07's post-condition on the radio"""
    ctx.check((radio.reg[0] & 3) == 3, what + ": powered up in receive mode")
    ctx.check(radio.ce == True, what + ": CE high")  # noqa: E712
    ctx.check(radio.reg[2] == 0x3F, what + ": all six pipes open")
    for p in range(6):
        ctx.check(bytes_eq(effective_addr(radio, p), NS.phys(addr, p, multicast)),
                  what + ": pipe %d listens on the node's own address%s" % (p, " (level address)" if p == 0 else ""))
    ctx.check(radio.reg[1] == 0x3E, what + ": auto-ack on pipes 1-5, off on pipe 0")
    ctx.check(s_and(radio.reg[0x1C] == 0x3F, (radio.read_reg(0x1D) & 4) == 4), what + ": dynamic payloads on")


def queue_frames(node):
    out = []
    while node.available():
        out.append(node.read())
    return out
