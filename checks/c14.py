"""C14 - a multicast reaches exactly the chosen network level, unacknowledged.

O1  sender step: multicast() from a real node at a symbolic address of every class (master,
    0o1, other level-1 nodes, deeper levels) to a symbolic level argument (-2..7) or the default:
    exactly one frame per fragment is transmitted, to the reference address of the requested
    level (clamped to 0..4; default = the sender's own level), header from the sender to the
    multicast address 0o100, no radio acknowledgement requested, returns True.
O2  receiver step: update() on a node of a symbolic level with a multicast frame (symbolic origin,
    user type, contents) on pipe 0: queued exactly once with identical bytes; re-broadcast
    exactly once to the next level's address, unacknowledged, iff multicast_relay is enabled
    (asserted for levels 1..3); no transmission without relay; the node keeps listening with
    auto-ack off on pipe 0 (so it never acknowledges a multicast).
O3  the same auto-ack post-condition after routed unicasts with and without an awaited NETWORK_ACK
    (the C07 harness), because a node that left auto-ack on would acknowledge the next multicast.
With C04-O2/O3 (level addresses are shared by exactly the nodes of a level and differ from every
unicast address; pipe 0 is not the level address when allow_multicast is off) this gives
"every node of level L and no node of any other level".
O4  populated co-simulation: 13 real nodes on the loss-free medium; sender / target level / one relaying node / one node
    with allow_multicast off enumerated, symbolic type and contents: every other node of the level receives it once, the next
    level once through a relay, nobody else, unacknowledged.
"""
from checks.netcommon import *  # noqa

PROPERTY = "C14"
MC = 0o100


def o1_sender(ctx, role, lx, lvl, n):
    clock = fresh_env(ctx)
    radio, node, x = build_node(ctx, clock, role, lx)
    link, _ = per_packet_link(ctx, radio, always=False)  # nobody acknowledges a multicast
    mtype = ctx.int("type", 0, 127)
    msg = ctx.bytes("msg", n)
    sent0 = len(radio.sent)
    if lvl == "default":
        ok = node.multicast(msg, mtype)
        eff = lx
    else:
        L = ctx.int("level", -2, 7)
        ok = node.multicast(msg, mtype, L)
        eff = s_ite(L < 0, 0, s_ite(L > 4, 4, L))
    pk = distinct_packets(radio, sent0)
    total = max(1, (n + 23) // 24)
    ctx.check(ok == True, "multicast() returns True (nothing is awaited)")  # noqa: E712
    ctx.check(len(pk) == total, "the multicast is transmitted: exactly one frame per fragment")
    for e in pk:
        ctx.check(bytes_eq(e["addr"], NS.level_addr(eff)), "transmitted to exactly the address of the requested level")
        ctx.check(e["no_ack"] == True, "transmitted without requesting a radio acknowledgement")  # noqa: E712
        ctx.check(e["attempts"] == 1, "one transmission, no retries")
        d = e["data"]
        ctx.check(s_and((d[0] | (d[1] << 8)) == x, (d[2] | (d[3] << 8)) == MC), "header: from the sender to 0o100")
    if n <= 24 and len(pk) == 1:
        ctx.check(s_and(pk[0]["data"][6] == mtype, bytes_eq(pk[0]["data"][8:], msg) if len(pk[0]["data"]) == 8 + n else False),
                  "type and message unmodified")
    listening_ok(ctx, radio, x, "after multicast()")
    ctx.reached()


def o2_receiver(ctx, role, lvl, relay, n):
    clock = fresh_env(ctx)
    radio, node, addr = build_node(ctx, clock, role, lvl)
    link, _ = per_packet_link(ctx, radio, always=False)
    node.multicast_relay = relay
    f = sym_addr(ctx, "F", ctx.choice("origin_level", 5))
    ctx.assume(f != addr)
    mtype = ctx.int("type", 0, 127)
    fid, res = ctx.int("id", 0, 0xFFFF), ctx.int("reserved", 0, 255)
    body = ctx.bytes("body", n)
    frame = [f & 0xFF, f >> 8, MC & 0xFF, MC >> 8, fid & 0xFF, fid >> 8, mtype, res] + blist(body)
    radio.inject_rx(0, frame)
    sent0 = len(radio.sent)
    node.update()
    pk = distinct_packets(radio, sent0)
    q = queue_frames(node)
    ctx.check(len(q) == 1, "the multicast is queued exactly once for the application")
    if len(q) == 1:
        h = q[0].header
        ctx.check(s_and(h.from_node == f, h.to_node == MC, h.message_type == mtype, h.frame_id == fid,
                        len(q[0].message) == n and bytes_eq(q[0].message, body)), "queued with identical bytes, type and origin")
    if not relay:
        ctx.check(len(pk) == 0, "no re-broadcast without multicast_relay")
    elif 1 <= lvl <= 3:
        ctx.check(len(pk) == 1, "re-broadcast exactly once with multicast_relay")
        if len(pk) == 1:
            ctx.check(bytes_eq(pk[0]["addr"], NS.level_addr(lvl + 1)), "re-broadcast to the next level's address")
            ctx.check(pk[0]["no_ack"] == True, "re-broadcast without requesting an acknowledgement")  # noqa: E712
            ctx.check(len(pk[0]["data"]) == len(frame) and bytes_eq(pk[0]["data"], frame), "re-broadcast frame is byte-identical")
    else:
        ctx.check(len(pk) <= 1, "at most one transmission")
        # a relaying node of level 0 or 4 has no "next level" the statement speaks of; whatever it transmits must not reach
        # a level it was not meant for: nothing on the address of levels 0..4 from a level-4 node, nothing beyond level 1 from the master
        for e in pk:
            for L in (range(0, 5) if lvl == 4 else range(2, 5)):
                ctx.check(s_not(bytes_eq(e["addr"], NS.level_addr(L))), "a relaying node of level %d transmits nothing to level %d" % (lvl, L))
    listening_ok(ctx, radio, addr, "after a received multicast")
    ctx.reached()


def o2_relay_fragments(ctx, role, lvl, n):
    """a relaying node receives a FRAGMENTED multicast (n > 24 bytes, in order): every fragment is re-broadcast byte-identical to the
    next level, unacknowledged, and the node's own application gets the reassembled message once"""
    from specs import frag_spec as FS
    clock = fresh_env(ctx)
    radio, node, addr = build_node(ctx, clock, role, lvl)
    link, _ = per_packet_link(ctx, radio, always=False)
    node.multicast_relay = True
    f = sym_addr(ctx, "F", ctx.choice("origin_level", 5))
    ctx.assume(f != addr)
    mtype, fid = ctx.int("type", 0, 127), ctx.int("id", 0, 0xFFFF)
    data = blist(ctx.bytes("msg", n))
    frames = []
    for fr in FS.fragments(f, MC, fid, mtype, data):
        frames.append([fr["from_node"] & 0xFF, fr["from_node"] >> 8, MC & 0xFF, MC >> 8, fid & 0xFF, fid >> 8, fr["message_type"], fr["reserved"]]
                      + [fr[("b", j)] for j in range(fr["len"])])
    sent0 = len(radio.sent)
    for w in frames:  # one update() per fragment (the RX FIFO holds three)
        radio.inject_rx(0, w)
        node.update()
    pk = distinct_packets(radio, sent0)
    ctx.check(len(pk) == len(frames), "every fragment is re-broadcast exactly once")
    for e, w in zip(pk, frames):
        ctx.check(bytes_eq(e["addr"], NS.level_addr(lvl + 1)), "re-broadcast to the next level's address")
        ctx.check(e["no_ack"] == True, "re-broadcast without requesting an acknowledgement")  # noqa: E712
        ctx.check(len(e["data"]) == len(w) and bytes_eq(e["data"], w), "the re-broadcast fragment is byte-identical (type and counter included)")
    q = queue_frames(node)
    ctx.check(len(q) == 1, "the reassembled multicast is queued exactly once for the application")
    if len(q) == 1:
        ctx.check(s_and(q[0].header.from_node == f, q[0].header.message_type == mtype, len(q[0].message) == n and bytes_eq(q[0].message, data)),
                  "reassembled with identical bytes, type and origin")
    listening_ok(ctx, radio, addr, "after a relayed fragmented multicast")
    ctx.reached()


TREE = [0, 0o1, 0o2, 0o3, 0o11, 0o21, 0o12, 0o13, 0o111, 0o211, 0o112, 0o1111, 0o2111]


def o4_cosim(ctx, sender, level, relay_at, deaf, late=0, hold=1):
    """populated whole-system run: 13 real nodes on the loss-free medium; `deaf` has allow_multicast off; `relay_at` relays"""
    from circuitpython_nrf24l01.rf24_network import RF24Network
    clock = fresh_env(ctx)
    med = Medium()
    nodes = {}
    for a in TREE:
        radio = med.add(SimRadio(clock, oct(a)))
        node = RF24Network(FakeSpiDev(radio), 0, Pin(radio), a)
        if a == deaf:
            node.allow_multicast = False
            node.node_address = a
        if a == relay_at:
            node.multicast_relay = True
        nodes[a] = (radio, node)
        med.attach_node(radio, node.update)
    mtype = ctx.int("type", 0, 127)
    body = ctx.bytes("body", 2)
    rs, ns = nodes[sender]
    if late:  # timing jitter: receivers and the relay may run late, symbolically
        symbolic_schedule(ctx, med, late, hold=hold)
    med.running(rs, True)
    ok = ns.multicast(body, mtype, level) if level is not None else ns.multicast(body, mtype)
    med.running(rs, False)
    for _ in range(40):
        if not any(st[2] for st in med.nodes.values()):
            break
        med.run_pending()
    med.defer = None
    for _ in range(40):
        if not any(st[2] for st in med.nodes.values()):
            break
        med.run_pending()
    L = level if level is not None else int(NS.level(sender))
    ctx.check(ok == True, "multicast() returns True")  # noqa: E712
    ctx.check(not med.errors, "no node raised: %r" % (med.errors[:1],))
    relayed = relay_at is not None and int(NS.level(relay_at)) == L and relay_at != sender and relay_at != deaf and 1 <= L <= 3
    for a, (radio, node) in nodes.items():
        q = queue_frames(node)
        lv = int(NS.level(a))
        want = 1 if (lv == L and a != sender and a != deaf) or (relayed and lv == L + 1 and a != deaf) else 0
        ctx.check(len(q) == want, "node %s (level %d) receives the level-%d multicast %d time(s)" % (oct(a), lv, L, want))
        if len(q) == 1 and want == 1:
            ctx.check(s_and(q[0].header.from_node == sender, q[0].header.message_type == mtype, bytes_eq(q[0].message, body)),
                      "identical type, origin and bytes")
    for e in med.air:
        ctx.check(e["no_ack"] == True and not e["acked"], "no acknowledgement is requested and none is given")  # noqa: E712
    ctx.reached()


def jobs(tier):
    out = []
    lens = (0, 24, 25) if tier == "quick" else (0, 1, 24, 25, 48, 49, 144)
    for role in ("net", "mesh"):
        for lx in range(5):
            if role == "mesh" and lx == 0:
                continue
            for lvl in ("default", "sym"):
                for n in (lens if (role == "net" or tier == "thorough") else (0,)):
                    out.append(Job("O1-sender", o1_sender, dict(role=role, lx=lx, lvl=lvl, n=n), cost=5 + n // 8))
    out.append(Job("O1-sender", o1_sender, dict(role="master", lx=0, lvl="sym", n=1), cost=5))
    scen = [(0, 1, None, None), (0o1, None, None, None), (0o2, 1, None, 0o3), (0o11, 3, None, None), (0o1111, 0, None, None),
            (0o3, 2, 0o21, None), (0, 1, 0o2, 0o11), (0o111, 4, None, 0o2111), (0o12, None, 0o13, None), (0o2, 4, None, None),
            (0o1, 1, 0o1, None), (0o211, 3, 0o111, 0o1111)]
    for sender, level, relay_at, deaf in (scen if tier == "thorough" else scen[:9]):
        out.append(Job("O4-populated-co-simulation", o4_cosim, dict(sender=sender, level=level, relay_at=relay_at, deaf=deaf), cost=30))
    for i, (sender, level, relay_at, deaf) in enumerate(scen if tier == "thorough" else (scen[2], scen[5], scen[6], scen[8])):
        out.append(Job("O4-populated-co-simulation-symbolic-schedule", o4_cosim,
                       dict(sender=sender, level=level, relay_at=relay_at, deaf=deaf, late=6 if tier == "quick" else 8, hold=(1, 8, 40)[i % 3]),
                       cost=60, shards=2))
    # "no receiver acknowledges it": after a routed unicast (also one that awaited a NETWORK_ACK) auto-ack stays off on pipe 0
    from checks import c07
    for lvl in (1, 2):
        for op in ("write_other", "write_desc", "write_parent"):
            for ack in (False, True):
                out.append(Job("O3-no-hardware-ack-on-pipe0-after-unicast", c07.h_history,
                               dict(role="net", lvl=lvl, ops=[op], n=0, ack_arrives=ack), cost=10, shards=3))
    for role, lvl, n in ((("net", 1, 30), ("net", 3, 60)) if tier == "quick" else
                         (("net", 1, 30), ("net", 2, 49), ("net", 3, 60), ("mesh", 2, 25), ("net", 1, 144))):
        out.append(Job("O2-relay-of-a-fragmented-multicast", o2_relay_fragments, dict(role=role, lvl=lvl, n=n), cost=10))
    for role in ("routing", "net", "mesh", "master"):
        for lvl in ((0,) if role == "master" else range(0 if role != "mesh" else 1, 5)):
            for relay in (False, True):
                for n in ((0, 24) if tier == "quick" else (0, 1, 24)):
                    out.append(Job("O2-receiver", o2_receiver, dict(role=role, lvl=lvl, relay=relay, n=n), cost=8))
    return out


META = {
    "bounds": {"quick": "O1: sender = network node of every level (digits symbolic: master, 0o1, other level-1, deeper) and mesh "
                        "nodes, level argument symbolic -2..7 and default, message lengths 0/24/25, symbolic type 0..127 and "
                        "contents; O2: every role x level, relay on/off, symbolic origin of any level, symbolic type/id/reserved, "
                        "0 or 24 symbolic body bytes",
               "thorough": "message lengths 0,1,24,25,48,49,144"},
    "outside": ["populated runs other than the 9 (12) scenarios of O4 on one 13-node tree (reception by 'every other node of level L' for all "
                "addresses follows from O1's address + C04-O2/O3 + O2)", "what a relaying node of level 0 or 4 transmits (the statement speaks of "
                "levels 1..3)", "timing jitter beyond the symbolic hold-back schedules (the first K occasions a node could run it may be held back for 1/8/40 poll points; K = 4..6 quick, 6..8 thorough)"],
    "assumptions": ["nobody acknowledges a multicast (the link never acknowledges in these harnesses)",
                    "reference level addresses specs/net_spec.level_addr"],
}

if __name__ == "__main__":
    import sys
    sys.exit(main(sys.modules[__name__]))
