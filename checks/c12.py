"""C12 - the frame queue is a bounded, duplicate-free FIFO of private copies.

Bounded model checking of the real FrameQueue / FrameQueueFrag (reached through a real
network node, so that the fragmentation toggle goes through the public setter) against a
reference queue: every history of up to k operations, each operation a choice of
{enqueue, dequeue, peek, max_queue_size = symbolic 0..3, toggle fragmentation}; all frame
fields symbolic (so duplicates are instances) and ONE frame object reused for every enqueue
(mutated after it was passed in).
"""
from checks.common import *  # noqa
from checks.c04 import new_net

PROPERTY = "C12"
OPS = ("enqueue", "dequeue", "peek", "setmax", "toggle")


def frame_fields(ctx, tag, body_len=2):
    t = ctx.int(tag + "_type", 0, 255)
    ctx.assume(s_or(t < 148, t > 150))  # fragments are C06's subject
    return dict(from_node=ctx.int(tag + "_from", 0, 0xFFF), to_node=ctx.int(tag + "_to", 0, 0xFFF),
                frame_id=ctx.int(tag + "_id", 0, 0xFFFF), message_type=t,
                reserved=ctx.int(tag + "_res", 0, 255), message=ctx.bytes(tag + "_msg", body_len))


def same_frame(ctx, frm, ref, what):
    ctx.check(frm is not None, what + ": a frame is returned")
    if frm is None:
        return
    h = frm.header
    ctx.check(s_and(h.from_node == ref["from_node"], h.to_node == ref["to_node"], h.frame_id == ref["frame_id"],
                    h.message_type == ref["message_type"], h.reserved == ref["reserved"]),
              what + ": header fields as enqueued")
    ctx.check(bytes_eq(frm.message, ref["message"]), what + ": message bytes as enqueued")


def h_history(ctx, first, depth):
    from circuitpython_nrf24l01.network.structs import RF24NetworkFrame
    clock = fresh_env(ctx)
    radio, net = new_net(clock, 0)
    frame = RF24NetworkFrame()  # the one object the caller keeps reusing
    ref, ref_max, frag = [], 6, True
    trace = []
    for step in range(depth):
        op = first[step] if step < len(first) else OPS[ctx.choice("op%d" % step, len(OPS))]
        trace.append(op)
        q = net.queue
        if op == "enqueue":
            f = frame_fields(ctx, "f%d" % step, 2 if step % 2 else 0)
            for k in ("from_node", "to_node", "frame_id", "message_type", "reserved"):
                setattr(frame.header, k, f[k])
            from vsym.core import SByteArray
            mutable = SByteArray(blist(f["message"])) if ctx.symbolic else bytearray(f["message"])
            frame.message = mutable  # a bytearray the caller keeps and scribbles over after the call
            got = q.enqueue(frame)
            for j in range(len(mutable)):
                mutable[j] = mutable[j] ^ 0xFF
            frame.header.reserved = (f["reserved"] + 1) & 0xFF
            full = len(ref) >= ref_max
            dup = s_or(*[s_and(e["from_node"] == f["from_node"], e["frame_id"] == f["frame_id"],
                               e["message_type"] == f["message_type"]) for e in ref]) if ref else False
            want = s_and(not full, s_not(dup))
            ctx.check(got == want, "enqueue() returns whether the frame was stored (not full, not a duplicate)")
            if bool(want):
                ref.append({k: (blist(v) if k == "message" else v) for k, v in f.items()})
            ctx.check(len(q) == len(ref), "queue length after enqueue")
            if bool(got):
                ctx.check(len(q) <= ref_max, "never holds more than max_queue_size frames after accepting one")
        elif op == "dequeue":
            got = q.dequeue()
            if ref:
                same_frame(ctx, got, ref.pop(0), "dequeue")
            else:
                ctx.check(got is None, "dequeue on an empty queue returns None")
            ctx.check(len(q) == len(ref), "queue length after dequeue")
        elif op == "peek":
            got = q.peek()
            if ref:
                same_frame(ctx, got, ref[0], "peek")
            else:
                ctx.check(got is None, "peek on an empty queue returns None")
            ctx.check(len(q) == len(ref), "peek removes nothing")
        elif op == "setmax":
            m = ctx.int("max%d" % step, 0, 3)
            q.max_queue_size = m
            ref_max = m
        else:
            frag = not frag
            net.fragmentation = frag
            ctx.check(net.queue is not q, "toggling fragmentation installs the other queue type")
            ctx.check(net.queue.max_queue_size == ref_max, "toggle keeps max_queue_size")
            ctx.check(len(net.queue) == len(ref), "toggle moves all queued frames")
    # drain: order, each once, contents as enqueued although the caller's object was reused
    for i, e in enumerate(ref):
        same_frame(ctx, net.queue.dequeue(), e, "drain")
    ctx.check(net.queue.dequeue() is None, "nothing left after draining: each frame leaves exactly once")
    ctx.check(net.available() == False, "available() is False on an empty queue")  # noqa: E712
    ctx.observe("trace", trace)
    ctx.reached()


def h_bulk_toggle(ctx, count):
    """max_queue_size raised above the default, `count` distinct frames queued, then fragmentation toggled twice"""
    from circuitpython_nrf24l01.network.structs import RF24NetworkFrame
    clock = fresh_env(ctx)
    radio, net = new_net(clock, 0)
    m = ctx.int("max", 7, 10)
    net.queue.max_queue_size = m
    frame, ref = RF24NetworkFrame(), []
    for i in range(count):
        f = frame_fields(ctx, "f%d" % i, 1)
        f["frame_id"], f["from_node"] = i, 0o5  # distinct by construction (no duplicate forks)
        for k in ("from_node", "to_node", "frame_id", "message_type", "reserved"):
            setattr(frame.header, k, f[k])
        frame.message = f["message"]
        ok = net.queue.enqueue(frame)
        ctx.check(ok == (i < m), "accepted while below max_queue_size")
        if bool(i < m):
            ref.append({k: (blist(v) if k == "message" else v) for k, v in f.items()})
    for toggle in (False, True):
        net.fragmentation = toggle
        ctx.check(net.queue.max_queue_size == m, "toggle keeps max_queue_size")
        ctx.check(len(net.queue) == len(ref), "toggle moves ALL queued frames")
    for e in ref:
        same_frame(ctx, net.queue.dequeue(), e, "after toggles")
    ctx.check(net.queue.dequeue() is None, "nothing else")
    ctx.reached()


def h_reassembled_copy(ctx, unread_then):
    """a reassembled message waiting in the queue is a private copy too: fragments of the next message must not touch it"""
    from circuitpython_nrf24l01.network.structs import RF24NetworkFrame
    from vsym.core import SBytes
    clock = fresh_env(ctx)
    radio, net = new_net(clock, 0)
    q, frame = net.queue, RF24NetworkFrame()

    def put(origin, fid, mtype, reserved, body):
        frame.header.from_node, frame.header.to_node, frame.header.frame_id = origin, 0, fid
        frame.header.message_type, frame.header.reserved = mtype, reserved
        frame.message = SBytes(body) if ctx.symbolic else bytes(body)
        return q.enqueue(frame)
    o1, o2 = ctx.int("origin1", 1, 0xFFF), ctx.int("origin2", 1, 0xFFF)
    ctx.assume(o1 != o2)
    t1, t2 = ctx.int("type1", 0, 127), ctx.int("type2", 0, 127)
    a, b = blist(ctx.bytes("a", 4)), blist(ctx.bytes("b", 4))
    put(o1, 7, 148, 2, a[:2])
    put(o1, 7, 150, t1, a[2:])
    ctx.check(len(q) == 1, "the first message is reassembled and queued")
    put(o2, 9, 148, 2, b[:2])
    if unread_then == "complete":
        put(o2, 9, 150, t2, b[2:])
    first = q.dequeue()
    ctx.check(first is not None and s_and(first.header.from_node == o1, first.header.message_type == t1,
                                          len(first.message) == 4 and bytes_eq(first.message, a)),
              "the queued message keeps the fields and bytes it had when it was accepted")
    if unread_then == "complete":
        second = q.dequeue()
        ctx.check(second is not None and s_and(second.header.from_node == o2, second.header.message_type == t2,
                                               len(second.message) == 4 and bytes_eq(second.message, b)),
                  "and the next message follows it, once")
    ctx.check(q.dequeue() is None, "nothing else")
    ctx.reached()


def jobs(tier):
    out = []
    depth = 4 if tier == "quick" else 6
    for u in ("first-only", "complete"):
        out.append(Job("reassembled-frames-are-private-copies", h_reassembled_copy, dict(unread_then=u), cost=3))
    for count in ((8, 10) if tier == "quick" else (7, 8, 9, 10, 11)):
        out.append(Job("bulk-toggle", h_bulk_toggle, dict(count=count), cost=3))
    for a in OPS:
        for b in OPS:
            if tier == "quick":
                out.append(Job("queue-history", h_history, dict(first=[a, b], depth=depth), cost=2))
            else:
                for c in OPS:
                    heavy = [a, b, c].count("enqueue")
                    out.append(Job("queue-history", h_history, dict(first=[a, b, c], depth=(depth if heavy < 3 else depth - 1)),
                                   cost=2 + 10 * heavy, shards=(1, 2, 8, 8)[heavy]))
    return out


META = {
    "bounds": {"quick": "all 5^4 operation histories of length 4 over {enqueue, dequeue, peek, max_queue_size = sym 0..3, "
                        "fragmentation toggle}; every enqueued frame has symbolic from/to (0..0xFFF), id (0..0xFFFF), type "
                        "(0..255 except 148-150), reserved and 0 or 2 symbolic message bytes; one frame object (with a bytearray message that is scribbled over after every enqueue) reused; plus 8-10 "
                        "frames under max_queue_size 7..10 moved through two fragmentation toggles",
               "thorough": "all 5^6 histories of length 6 (length 5 after three leading enqueues)"},
    "outside": ["fragment types 148-150 in the history obligation (C06; one dedicated obligation checks that a reassembled message waiting in the queue is a private copy)", "field values outside the wire range (the statement's 'fields they had when "
                "enqueued')", "histories longer than 6", "max_queue_size > 10 or negative",
                "eviction when max_queue_size is lowered below the current length (not required by the statement as read here: "
                "only acceptance is bounded)"],
    "assumptions": ["reference queue: bounded, duplicate-free (origin, frame id, type) FIFO of value copies"],
}

if __name__ == "__main__":
    import sys
    sys.exit(main(sys.modules[__name__]))
