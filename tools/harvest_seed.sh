#!/bin/bash
# tools/harvest_seed.sh <PROP> <worktree> <n>  - confirm a sub-agent's seeded change and keep it under seeded/
set -u
P=$1; WT=$2; N=$3
S=$WT/seed_out/${4:-$N}
D=/verif/seeded/$P-$N
cd $WT || exit 2
git checkout -q -- circuitpython_nrf24l01 2>/dev/null
git -C $WT checkout -q --detach $(git -C /repo rev-parse HEAD) 2>/dev/null   # verify against /repo's current HEAD
git apply --check $S/patch.diff || { echo "$P-$N: patch does not apply to current HEAD"; exit 1; }
PYTHONPATH=$WT /venv/bin/python $S/demo.py >/tmp/seed_demo_clean.log 2>&1; CLEAN=$?
git apply $S/patch.diff
T=$(PYTHONPATH=$WT /venv/bin/python -m pytest -q -p no:cacheprovider --timeout=900 2>&1 | tail -1)
PYTHONPATH=$WT /venv/bin/python $S/demo.py >/tmp/seed_demo_mut.log 2>&1; MUT=$?
git checkout -q -- circuitpython_nrf24l01
echo "$P-$N: clean demo exit=$CLEAN, mutated demo exit=$MUT, tests with change: $T"
if [ $CLEAN -eq 0 ] && [ $MUT -ne 0 ] && echo "$T" | grep -q "208 passed, 55 xfailed, 1 xpassed"; then
  mkdir -p $D; cp $S/patch.diff $S/demo.py $D/
  /venv/bin/python - "$S/meta.json" "$D/meta.json" "$T" "$CLEAN" "$MUT" <<'PY'
import json, sys
m = json.load(open(sys.argv[1]))
m["confirmed"] = {"tests_with_change": sys.argv[3], "demo_exit_unmodified": int(sys.argv[4]), "demo_exit_with_change": int(sys.argv[5]),
                  "how": "tools/harvest_seed.sh: scratch worktree at /repo HEAD; git apply; pytest; demo.py; revert; demo.py"}
json.dump(m, open(sys.argv[2], "w"), indent=1)
PY
  echo "  kept as $D"
else
  echo "  NOT kept"
fi
