#!/usr/bin/env python3
"""print the prompt for a seeding sub-agent (property text + worktree only; nothing from /verif)"""
import json, sys
pid, wt = sys.argv[1], sys.argv[2]
p = [json.loads(l) for l in open("/verif/properties.jsonl") if json.loads(l)["id"] == pid][0]
print(f"""You are working in a scratch git worktree of the open-source Python project CircuitPython_nRF24L01 (a CircuitPython/CPython driver for the nRF24L01 radio with an RF24Network routing layer, mesh addressing and fake-BLE advertising) at {wt}. Work ONLY inside {wt}; do not read or modify /repo or /verif or any other directory.

PROPERTY {pid} - {p['title']}
Statement: {p['statement']}
Quantifier: {p['quantifier']['text']}

The unmodified code in the worktree satisfies this property (as far as is known). YOUR TASK: produce realistic code changes to the library source under {wt}/circuitpython_nrf24l01/ that BREAK this property while the project still imports and the existing test-suite still passes unchanged. Think of plausible developer slips: a refactoring that drops a state update, an off-by-one, a wrong mask/shift, a condition inverted for one corner, a cache not refreshed, two sites that each look fine alone. IMPORTANT: the breakage must need something specific to manifest - an unusual input or boundary value, a multi-step sequence of API calls, a particular loss/ACK/fault pattern, a specific address/level/topology - NOT something ordinary use (or the existing tests) would expose immediately.

Test-suite command (PYTHONPATH is required, the installed package otherwise resolves elsewhere):
  cd {wt} && PYTHONPATH={wt} /venv/bin/python -m pytest -q -p no:cacheprovider --timeout=900
Expected on the unmodified tree: 208 passed, 55 xfailed, 1 xpassed. It must be the same with your change. Do not edit anything under tests/.

Deliver THREE different changes (different code sites / different mechanisms; call them A, B, C), in {wt}/seed_out/1/, {wt}/seed_out/2/ and {wt}/seed_out/3/. Go well beyond the first idea that comes to mind and avoid the most obvious line for this property. Change A must live in a helper, base class, mixin or shared module that the property only depends on indirectly (not in the function a reader would look at first). Change B must consist of TWO edits at different sites that are each harmless alone and break the property only together. Change C must only manifest through state carried across three or more public API calls, or at a boundary value (largest/smallest legal argument, a full or empty queue/FIFO/table, a wrap-around, a retry that succeeds on its last attempt, a time-out that expires exactly between two steps). None of the three may be detectable by a single call with default configuration and a typical argument. Each directory contains:
  patch.diff  - `git diff` of the library change only (must apply with `git apply` to the unmodified worktree)
  demo.py     - a small standalone program (plain python, exit code 0 = property holds, non-zero = broken) that demonstrates the violation through the library's public API, using fakes you write yourself (e.g. a fake SPI bus / tiny radio simulation in the style of tests/conftest.py - no hardware exists here). It must exit non-zero WITH the change and exit 0 WITHOUT it. Run it as: cd {wt} && PYTHONPATH={wt} /venv/bin/python seed_out/N/demo.py
  meta.json   - {{"property": "{pid}", "summary": "...what was changed...", "needs_to_manifest": "...the specific input/sequence/fault needed...", "files_changed": [...]}}
Verify all of it yourself in both directions (apply the patch, run tests + demo; revert, run demo). When finished, leave the library source reverted (git checkout -- circuitpython_nrf24l01) and keep seed_out/. No network is available; python is /venv/bin/python. Finish with a 6-line report: for each change, the site, what it needs to manifest, and the observed test/demo results.""")
