#!/bin/bash
# tools/run_all.sh [quick|thorough]  - run every claimed check in MANIFEST order; summary at the end
cd /verif; T=${1:-quick}
for id in $(.venv/bin/python -c "import json; print(' '.join(c['property_id'] for c in json.load(open('MANIFEST.json'))['checks']))"); do
  s=$(date +%s); out=$(./check $id --tier $T 2>&1); rc=$?; e=$(date +%s)
  echo "$id rc=$rc $((e-s))s  $(echo "$out" | tail -1 | cut -c1-170)"
  echo "$out" | grep "^VIOLATION\|^KNOWN-FINDING\|HARNESS-ERROR\|INCONCLUSIVE\|VACUOUS" | cut -c1-250 | head -5
done
