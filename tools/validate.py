#!/usr/bin/env python3
"""validate MANIFEST.json and evidence/*.json against the schemas in /root/.vp"""
import json, sys, glob, os
import jsonschema
V = os.path.dirname(os.path.dirname(os.path.abspath(__file__)))
ok = True
def val(path, schema):
    global ok
    try:
        jsonschema.validate(json.load(open(path)), json.load(open(schema)))
        print("ok  ", path)
    except Exception as e:
        ok = False
        print("FAIL", path, str(e)[:400])
val(V + "/MANIFEST.json", "/root/.vp/MANIFEST.schema.json")
for f in sorted(glob.glob(V + "/evidence/*.json")):
    val(f, "/root/.vp/EVIDENCE.schema.json")
m = json.load(open(V + "/MANIFEST.json"))
props = [json.loads(l)["id"] for l in open(V + "/properties.jsonl")]
claimed = [c["property_id"] for c in m["checks"]]
na = [n["property_id"] for n in m.get("not_applicable", [])]
for p in props:
    if (p in claimed) == (p in na):
        ok = False
        print("FAIL property %s must be exactly one of claimed / not_applicable" % p)
sys.exit(0 if ok else 1)
