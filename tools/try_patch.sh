#!/bin/bash
# tools/try_patch.sh <patch-file | "sed:<expr>:<file>"> <check id> [extra args]  - apply to /repo, run ./check, always revert
P=$1; ID=$2; shift 2
cd /repo || exit 2
if [ -n "$(git status --porcelain --untracked-files=no)" ]; then echo "/repo has uncommitted changes"; exit 2; fi
case "$P" in
  sed:*) E=$(echo "$P" | cut -d: -f2); F=$(echo "$P" | cut -d: -f3); sed -i "$E" "$F"; git diff --stat | tail -1;;
  *) git apply "$P" || exit 2;;
esac
cd /verif; ./check $ID --no-evidence "$@" 2>&1 | grep -v "^  inputs\|^  concrete" | tail -${TAILN:-6}; RC=${PIPESTATUS[0]}
git -C /repo checkout -- . ; echo "check exit=$RC (repo reverted)"
