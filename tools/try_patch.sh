#!/bin/bash
# tools/try_patch.sh <patch-file | "sed:<expr>:<file>"> <check id> [extra args]
# Applies the change to a scratch worktree of /repo's HEAD (outside /repo and /verif), runs ./check against it
# (VERIF_REPO), removes the worktree.  /repo itself is never touched.
P=$1; ID=$2; shift 2
WT=/tmp/tp-$$-$RANDOM
git -C /repo worktree add -q --detach $WT HEAD || exit 2
trap 'git -C /repo worktree remove --force $WT >/dev/null 2>&1; git -C /repo worktree prune' EXIT
cd $WT
case "$P" in
  sed:*) E=$(echo "$P" | cut -d: -f2); F=$(echo "$P" | cut -d: -f3); sed -i "$E" "$F"; git diff --stat | tail -1;;
  *) case "$P" in /*) ;; *) P=/verif/$P;; esac; git apply "$P" || exit 2;;
esac
cd /verif; VERIF_REPO=$WT timeout ${TMO:-900} ./check $ID --no-evidence "$@" 2>&1 | grep -v "^  inputs\|^  concrete" | tail -${TAILN:-6}; RC=${PIPESTATUS[0]}
echo "check exit=$RC"
