#!/bin/bash
# tools/run_seeds.sh [seed-dir ...]  - run each seeded change against its property's quick check (thorough if quick misses)
# and write seeded/RESULTS.md.  Uses scratch worktrees (tools/try_patch.sh); /repo is never touched.
cd /verif
SEEDS=${@:-$(ls -d seeded/C*-* | sort)}
OUT=seeded/RESULTS.tsv; touch $OUT
for d in $SEEDS; do
  s=$(basename $d); p=${s%%-*}
  [ -f checks/$(echo $p | tr A-Z a-z).py ] || { echo "$s: no check for $p yet"; continue; }
  r=$(TAILN=400 TMO=${TMO:-600} tools/try_patch.sh $d/patch.diff $p 2>&1)
  rc=$(echo "$r" | grep -o "check exit=[0-9]*" | tail -1 | cut -d= -f2)
  lab=$(echo "$r" | grep "^violated:" | head -1 | cut -c1-200)
  tier=quick
  if [ "$rc" != "1" ] && [ -n "$THOROUGH" ]; then
    r=$(TAILN=400 TMO=${TMO2:-2400} tools/try_patch.sh $d/patch.diff $p --tier thorough 2>&1)
    rc=$(echo "$r" | grep -o "check exit=[0-9]*" | tail -1 | cut -d= -f2); lab=$(echo "$r" | grep "^violated:" | head -1 | cut -c1-200); tier=thorough
  fi
  grep -v "^$s	" $OUT > $OUT.tmp; mv $OUT.tmp $OUT
  printf "%s\t%s\t%s\t%s\t%s\n" "$s" "$p" "$tier" "$rc" "$lab" >> $OUT
  echo "$s -> $tier exit=$rc $lab"
done
sort -o $OUT $OUT
