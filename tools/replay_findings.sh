#!/bin/bash
# tools/replay_findings.sh - replay every recorded witness under findings/ on the current /repo:
# repaired defects must NOT reproduce any more; the open known finding must.
cd /verif; bad=0
for f in findings/*.json; do
  p=$(/venv/bin/python -c "import json,sys; print(json.load(open('$f'))['property'])")
  out=$(./check $p --replay $f 2>&1 | tail -1)
  case "$f" in *KF*) want="VIOLATION";; *) want="not reproduced";; esac
  if echo "$out" | grep -q "$want"; then echo "ok   $f: $(echo $out | cut -c1-80)"; else echo "BAD  $f: $out"; bad=1; fi
done
exit $bad
