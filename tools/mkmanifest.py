#!/usr/bin/env python3
"""regenerate MANIFEST.json from the check modules present in checks/ (run from /verif)"""
import importlib, json, os, sys
V = os.path.dirname(os.path.dirname(os.path.abspath(__file__)))
sys.path.insert(0, V)
props = [json.loads(l) for l in open(V + "/properties.jsonl")]
BASE = "cd /repo && /venv/bin/python -m pytest -ra -q -p no:cacheprovider --timeout=900 --continue-on-collection-errors"
checks, na = [], []
NA_REASONS = json.load(open(V + "/tools/not_applicable.json")) if os.path.exists(V + "/tools/not_applicable.json") else {}
for p in props:
    pid = p["id"]
    path = V + "/checks/%s.py" % pid.lower()
    if pid in NA_REASONS or not os.path.exists(path):
        na.append({"property_id": pid, "reason": NA_REASONS.get(pid, "check not built yet (work in progress); see DESIGN.md section 5")})
        continue
    src = open(path).read()
    mod = importlib.import_module("checks.%s" % pid.lower())
    meta = getattr(mod, "META", {})
    checks.append({
        "property_id": pid,
        "quick_cmd": "./check %s --tier quick" % pid,
        "thorough_cmd": "./check %s --tier thorough" % pid,
        "evidence_file": "/verif/evidence/%s.json" % pid,
        "replay_cmd_template": "./check %s --replay {path}" % pid,
        "engine": "vsym",
        "level_claimed": {
            "category": "model_checking",
            "text": meta.get("level_text", "Bounded symbolic model checking of the real code: every obligation is decided by z3 over all "
                    "input values inside the stated bounds (path condition AND NOT clause is unsat), counterexamples are replayed "
                    "on the unshadowed code before being reported. Nothing outside the bounds is claimed. Obligations: "
                    + " ".join((mod.__doc__ or "").split())[:1400]),
            "design_ref": "DESIGN.md section 5 (%s), sections 2-4" % pid,
        },
        "level_note": meta.get("level_note", "Trusted: z3, CPython as interpreter of the code under test, the vsym proxy semantics "
                      "(validated per sampled path against the unshadowed implementation), the SimRadio/Medium/clock "
                      "environment models written from the nRF24L01+ product specification, the reference oracles in the check. "
                      "Bounds and exclusions are listed in the evidence file."),
        "technique": meta.get("technique", "symbolic execution of the real Python modules with z3 bit-vector proxies (vsym); "
                     "bounded, per-path SMT queries; concrete replay of counterexamples"),
    })
m = {
    "version": 1,
    "setup_cmd": "./setup.sh",
    "hooks": {
        "guard": "NRF24_CIRCUITPYTHON_NRF24L01_VERIF",
        "enable": "no source hooks are needed: the checks import /repo's modules as they are and shadow builtins through module globals at run time; ./check sets NRF24_CIRCUITPYTHON_NRF24L01_VERIF=1 for uniformity only",
        "baseline_off_cmd": BASE,
        "source_commits": [],
        "add_only": True,
    },
    "engines": [{"name": "vsym", "path": "/verif/vsym", "serves_properties": [c["property_id"] for c in checks],
                 "kind_free_text": "proxy-object symbolic execution of the real CPython code over z3 bit-vectors (bounded model checking), with SPI-level radio / medium / clock environment models"}],
    "checks": checks,
    "not_applicable": na,
    "notes": "Exit codes of every check: 0 holds on everything explored (KNOWN-FINDING lines possible), 1 replayed violation, 2 inconclusive / harness error. See DESIGN.md.",
}
json.dump(m, open(V + "/MANIFEST.json", "w"), indent=1)
print("claimed:", [c["property_id"] for c in checks]); print("not_applicable:", [n["property_id"] for n in na])
