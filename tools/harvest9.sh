#!/bin/bash
# tools/harvest9.sh <ID>  - ninth batch: harvest /tmp/wt8-<ID>/seed_out/{1,2,3} as <ID>-17..19 (helper modules next to the demos
# are copied along), run them against the property's quick check, remove the worktree
ID=$1; WT=${WTP:-/tmp/wt8}-$ID
cd /verif
for i in 1 2 3; do
  n=$((${BASE:-16}+i))
  # demos that import a shared helper from seed_out/: inline the helper directory on sys.path by copying it next to the demo
  for h in $WT/seed_out/*.py; do [ -f "$h" ] && cp "$h" $WT/seed_out/$i/ 2>/dev/null; done
  tools/harvest_seed.sh $ID $WT $n $i
  if [ -d seeded/$ID-$n ]; then for h in $WT/seed_out/$i/*.py; do [ "$(basename $h)" != demo.py ] && cp $h seeded/$ID-$n/; done; fi
done
tools/run_seeds.sh $(for i in 1 2 3; do ls -d seeded/$ID-$((${BASE:-16}+i)) 2>/dev/null; done)
[ -n "$KEEPWT" ] || git -C /repo worktree remove --force $WT
