#!/bin/sh
# Build the overlay interpreter used by every check: /venv's python (which has the
# repository and its dependencies) plus z3-solver/jsonschema from the offline wheelhouse.
set -e
cd "$(dirname "$0")"
V=.venv
if [ ! -x $V/bin/python ] || ! $V/bin/python -c 'import z3, jsonschema' >/dev/null 2>&1; then
  rm -rf $V
  /venv/bin/python -m venv $V
  SP=$($V/bin/python -c 'import sysconfig; print(sysconfig.get_paths()["purelib"])')
  echo "import site; site.addsitedir('/venv/lib/python3.12/site-packages')" > "$SP/_base_venv.pth"
  PIP_NO_INDEX=1 $V/bin/pip install -q --no-index --find-links /opt/veriftools/wheels z3-solver jsonschema
fi
$V/bin/python -c 'import z3, jsonschema, circuitpython_nrf24l01, os; assert os.path.realpath(circuitpython_nrf24l01.__file__).startswith("/repo/"), circuitpython_nrf24l01.__file__; print("setup ok: z3", z3.get_version_string())'
# differential self-test of the proxy operator semantics against real Python values (fails the set-up on a mismatch)
PYTHONPATH="$(pwd)" $V/bin/python -m vsym.selftest
